//! Shape model and source generation for the `rec_lambda!` differential crate (property C20).
//!
//! A *shape* is one way of writing the macro invocation: the sequence of captures (each `&T` or
//! `&mut T`, 0..=4 of them, in every order), the number of arguments (1..=4), whether a return type
//! is written, and whether recursive calls carry a trailing comma. Every shape is emitted as one
//! function that contains the macro closure AND a hand-written recursive `fn` with the same body in
//! which `rec!(args)` is replaced by `twin(args, captures...)`.
//!
//! The supported space of the macro (read off /repo/rlib/lambda/src/lib.rs) is exactly:
//!   captures `ident: &Type` / `ident: &mut Type` separated by commas, no trailing comma, or `||`;
//!   arguments `ident: Type` (at least one, no patterns, no trailing comma);
//!   optional `-> Type`; recursive calls `name!(e1, .., ek)` or `name!(e1, .., ek,)`.
//! Nothing outside this space is generated.

use std::fmt::Write as _;

pub const PRIMES: [u64; 4] = [5, 7, 11, 13];
pub const INPUTS_PER_SHAPE: u64 = 6;

#[derive(Clone, Copy, PartialEq, Eq, Debug, PartialOrd, Ord)]
pub enum Cap {
    R,
    M,
}

#[derive(Clone, Copy, PartialEq, Eq, Debug, PartialOrd, Ord)]
pub enum Variant {
    /// linear recursion; shared captures `u64`, mutable captures `Vec<u64>`, all arguments `u64`
    Lin,
    /// two recursive calls in one expression
    Two,
    /// capture types beyond integers: Vec<u64>, String, (u64, u64), [u64; 3], u64 counter, and the unsized [u64] and str
    /// (declared so in the capture list; the variables outside are a Vec<u64> and a String)
    Types,
    /// mixed argument types, compound argument expressions (if / block / call with inner commas),
    /// tuple return type, nested recursive call in argument position
    Mix,
    /// reference-typed arguments: a single `&[u64]` argument (recursion over sub-slices), or a `&mut Vec<u64>` passed
    /// along as the last argument; the closure is called several times with borrows of different lifetimes
    Refs,
    /// the `lin` body, but the name chosen for the recursive calls coincides with the name of a captured variable or of
    /// an argument (macro names live in their own namespace, so `dp!(n - 1)` next to a capture called `dp` is lawful)
    Names,
    /// the `lin` body run 1.3 million frames deep on a large stack (a terminating recursion of any depth the stack can
    /// hold is lawful); sub-grid: at most two captures, at most two arguments
    Deep,
    /// the `lin` body with early `return` statements, and the closure called 4.5 million times at shallow depth (state that
    /// an expansion keeps across calls - counters, guards - is exercised by volume, not by depth); sub-grid like `deep`
    Churn,
    /// the return type is a reference borrowed from the (single, shared) capture: `|s0: &Vec<u64>| {|a0: u64| -> &u64 {..}}`;
    /// the hand-written fn gets the same signature by lifetime elision
    RetRef,
}

pub const ALL_VARIANTS: [Variant; 9] = [Variant::Lin, Variant::Two, Variant::Types, Variant::Mix, Variant::Refs, Variant::Names, Variant::Deep, Variant::Churn, Variant::RetRef];
pub const CHURN_CALLS: u64 = 4_500_000;
pub const DEEP_DEPTH: u64 = 1_300_000;

impl Variant {
    pub fn name(self) -> &'static str {
        match self {
            Variant::Lin => "lin",
            Variant::Two => "two",
            Variant::Types => "types",
            Variant::Mix => "mix",
            Variant::Refs => "refs",
            Variant::Names => "names",
            Variant::Deep => "deep",
            Variant::Churn => "churn",
            Variant::RetRef => "retref",
        }
    }
    pub fn parse(s: &str) -> Option<Variant> {
        ALL_VARIANTS.iter().copied().find(|v| v.name() == s)
    }
}

#[derive(Clone, PartialEq, Eq, Debug, PartialOrd, Ord)]
pub struct Shape {
    pub variant: Variant,
    pub caps: Vec<Cap>,
    pub nargs: usize,
    pub ret: bool,
    pub tc: bool,
}

#[derive(Clone, Copy, PartialEq, Eq, Debug)]
enum Ty {
    U64,
    VecU64,
    Str,
    Pair,
    Arr3,
    /// declared in the capture list as the unsized `[u64]` (the variable outside is a Vec<u64>: `&mut v` coerces)
    Slice,
    /// declared as the unsized `str` (the variable outside is a String)
    StrSlice,
    /// interior mutability behind a shared capture (and a type that may not cross threads)
    CellU64,
    /// reference-counted, single-threaded
    RcVec,
    /// a capture type with a lifetime hidden inside (`&Vec<&str>`: legal in a fn signature by elision)
    VecStrRef,
}

const TY_ROT: [Ty; 10] = [Ty::Pair, Ty::Slice, Ty::CellU64, Ty::Str, Ty::VecStrRef, Ty::Arr3, Ty::StrSlice, Ty::VecU64, Ty::RcVec, Ty::U64];

impl Ty {
    fn name(self) -> &'static str {
        match self {
            Ty::U64 => "u64",
            Ty::VecU64 => "Vec<u64>",
            Ty::Str => "String",
            Ty::Pair => "(u64, u64)",
            Ty::Arr3 => "[u64; 3]",
            Ty::Slice => "[u64]",
            Ty::StrSlice => "str",
            Ty::CellU64 => "std::cell::Cell<u64>",
            Ty::RcVec => "std::rc::Rc<Vec<u64>>",
            Ty::VecStrRef => "Vec<&str>",
        }
    }
    /// type of the variable outside the macro
    fn decl_name(self) -> &'static str {
        match self {
            Ty::Slice => "Vec<u64>",
            Ty::StrSlice => "String",
            t => t.name(),
        }
    }
    /// initial value of capture number `i`, an expression over `k0: u64`
    fn init(self, i: usize, mutable: bool) -> String {
        let p = PRIMES[i];
        match self {
            Ty::U64 => format!("k0.wrapping_mul({p}).wrapping_add({i}) % 100_003"),
            Ty::VecU64 => {
                if mutable {
                    format!("vec![{p}, k0 % 5]")
                } else {
                    format!("vec![k0 % 7, {p}, k0 % 11 + {i}]")
                }
            }
            Ty::Str => format!("format!(\"c{i}-{{}}\", k0 % 1000)"),
            Ty::Pair => format!("(k0 % 97, {p})"),
            Ty::Arr3 => format!("[k0 % 13, {p}, {i}]"),
            Ty::Slice => format!("vec![k0 % 17, {p}, {i}, k0 % 3]"),
            Ty::StrSlice => format!("format!(\"s{i}-{{:04}}\", k0 % 1000)"),
            Ty::CellU64 => format!("std::cell::Cell::new(k0.wrapping_mul({p}) % 1009)"),
            Ty::RcVec => format!("std::rc::Rc::new(vec![k0 % 19, {p}, {i}])"),
            Ty::VecStrRef => format!("vec![[\"ab\", \"c\", \"defg\"][(k0 % 3) as usize], \"p{p}\", \"i{i}\"]"),
        }
    }
    /// `u64` digest of the capture; `n` names a `&T` / `&mut T` inside the body. Growing (mutable)
    /// containers are digested in O(1) - length and last element - their full content is compared
    /// at the end anyway.
    fn read(self, n: &str, mutable: bool) -> String {
        match self {
            Ty::VecU64 if mutable => format!("{n}.last().copied().unwrap_or(0).wrapping_mul(131).wrapping_add({n}.len() as u64)"),
            Ty::Str if mutable => format!("({n}.as_bytes().last().copied().unwrap_or(0) as u64).wrapping_mul(131).wrapping_add({n}.len() as u64)"),
            Ty::U64 => format!("*{n}"),
            Ty::VecU64 => format!("{n}.iter().fold({n}.len() as u64, |acc, x| acc.wrapping_mul(131).wrapping_add(*x))"),
            Ty::Str => format!("{n}.bytes().fold({n}.len() as u64, |acc, x| acc.wrapping_mul(131).wrapping_add(x as u64))"),
            Ty::Pair => format!("{n}.0.wrapping_mul(131).wrapping_add({n}.1)"),
            Ty::Arr3 => format!("{n}[0].wrapping_mul(131).wrapping_add({n}[1]).wrapping_mul(131).wrapping_add({n}[2])"),
            Ty::Slice => format!("{n}.iter().fold({n}.len() as u64, |acc, x| acc.wrapping_mul(131).wrapping_add(*x))"),
            Ty::StrSlice => format!("{n}.bytes().fold({n}.len() as u64, |acc, x| acc.wrapping_mul(131).wrapping_add(x as u64))"),
            Ty::CellU64 => format!("{n}.get()"),
            Ty::RcVec => format!("{n}.iter().fold(std::rc::Rc::strong_count({n}) as u64, |acc, x| acc.wrapping_mul(131).wrapping_add(*x))"),
            Ty::VecStrRef if mutable => format!("({n}.last().map(|x| x.len()).unwrap_or(0) as u64).wrapping_mul(131).wrapping_add({n}.len() as u64)"),
            Ty::VecStrRef => format!("{n}.iter().fold({n}.len() as u64, |acc, x| acc.wrapping_mul(131).wrapping_add(x.len() as u64 + x.as_bytes()[0] as u64))"),
        }
    }
    /// statement(s) mutating the capture from `h`; `n` names a `&mut T` inside the body
    fn mutate(self, n: &str, p: u64) -> String {
        match self {
            Ty::U64 => format!("*{n} = {n}.wrapping_mul({p}).wrapping_add(h);"),
            Ty::VecU64 => format!("{n}.push(h.wrapping_mul({p}));"),
            Ty::Str => format!("{n}.push(char::from(b'a' + (h.wrapping_mul({p}) % 26) as u8));"),
            Ty::Pair => format!("{n}.0 = {n}.0.wrapping_add(h); {n}.1 = {n}.1.wrapping_mul({p}).wrapping_add({n}.0);"),
            Ty::Arr3 => format!("{n}[(h % 3) as usize] = {n}[(h % 3) as usize].wrapping_mul({p}).wrapping_add(h);"),
            Ty::Slice => format!("{n}[(h % 4) as usize] = {n}[(h % 4) as usize].wrapping_mul({p}).wrapping_add(h); {n}.swap(0, (h % 3 + 1) as usize);"),
            Ty::StrSlice => format!("if h.wrapping_mul({p}) % 2 == 0 {{ {n}.make_ascii_uppercase(); }} else {{ {n}.make_ascii_lowercase(); }}"),
            Ty::CellU64 => format!("{n}.set({n}.get().wrapping_mul({p}).wrapping_add(h));"),
            Ty::RcVec => format!("if let Some(v) = std::rc::Rc::get_mut({n}) {{ v.push(h.wrapping_mul({p}) % 1000); }}"),
            Ty::VecStrRef => format!("{n}.push([\"x\", \"yy\", \"zzz\"][(h.wrapping_mul({p}) % 3) as usize]);"),
        }
    }
}

struct CapInfo {
    kind: Cap,
    name: String,
    ty: Ty,
    is_trace: bool,
    prime: u64,
    idx: usize,
}

impl Shape {
    pub fn pattern(&self) -> String {
        if self.caps.is_empty() {
            "none".to_string()
        } else {
            self.caps.iter().map(|c| if *c == Cap::R { 'R' } else { 'M' }).collect()
        }
    }
    /// stable, descriptive id, e.g. `c=RM_a=3_ret_tc_b=lin`: captures `&`, `&mut`; 3 arguments; return
    /// type written; trailing-comma calls; body variant `lin`.
    pub fn id(&self) -> String {
        format!(
            "c={}_a={}_{}_{}_b={}",
            self.pattern(),
            self.nargs,
            if self.ret { "ret" } else { "unit" },
            if self.tc { "tc" } else { "nc" },
            self.variant.name()
        )
    }
    pub fn parse_id(id: &str) -> Option<Shape> {
        let parts: Vec<&str> = id.split('_').collect();
        if parts.len() != 5 {
            return None;
        }
        let pat = parts[0].strip_prefix("c=")?;
        let caps: Vec<Cap> = if pat == "none" {
            vec![]
        } else {
            let mut v = vec![];
            for ch in pat.chars() {
                v.push(match ch {
                    'R' => Cap::R,
                    'M' => Cap::M,
                    _ => return None,
                });
            }
            v
        };
        if caps.len() > 4 {
            return None;
        }
        let nargs: usize = parts[1].strip_prefix("a=")?.parse().ok()?;
        if !(1..=4).contains(&nargs) {
            return None;
        }
        let ret = match parts[2] {
            "ret" => true,
            "unit" => false,
            _ => return None,
        };
        let tc = match parts[3] {
            "tc" => true,
            "nc" => false,
            _ => return None,
        };
        let variant = Variant::parse(parts[4].strip_prefix("b=")?)?;
        let s = Shape { variant, caps, nargs, ret, tc };
        if s.variant == Variant::Types && s.caps.is_empty() {
            return None;
        }
        Some(s)
    }
    /// the shapes the pinned tests never expand
    pub fn nontrivial(&self) -> bool {
        self.caps.len() >= 2 || self.nargs >= 3 || self.tc
    }

    /// the identifier given to the macro for recursive calls
    pub fn call_name(&self) -> String {
        if self.variant != Variant::Names {
            return "rec".to_string();
        }
        let caps = self.cap_infos();
        let code: usize = self.caps.iter().fold(self.caps.len(), |a, c| a * 2 + (*c == Cap::M) as usize) + self.nargs + self.ret as usize;
        if !caps.is_empty() && code % 2 == 0 {
            caps[code / 2 % caps.len()].name.clone()
        } else {
            format!("a{}", code / 2 % self.nargs)
        }
    }

    fn is_ref_arg(&self, i: usize) -> bool {
        self.variant == Variant::Refs && (self.nargs == 1 || i + 1 == self.nargs)
    }
    fn arg_ty(&self, i: usize) -> &'static str {
        if self.variant == Variant::Refs {
            if self.nargs == 1 {
                "&[u64]"
            } else if i + 1 == self.nargs {
                "&mut Vec<u64>"
            } else {
                "u64"
            }
        } else if self.variant == Variant::Mix {
            ["u64", "i64", "u32", "u8"][i]
        } else {
            "u64"
        }
    }
    fn ret_ty(&self) -> &'static str {
        if !self.ret {
            "()"
        } else if self.variant == Variant::Mix {
            "(u64, u32)"
        } else {
            "u64"
        }
    }
    fn cap_infos(&self) -> Vec<CapInfo> {
        let code: usize = self.caps.iter().fold(self.caps.len(), |a, c| a * 2 + (*c == Cap::M) as usize);
        let mut seen_mut = false;
        self.caps
            .iter()
            .enumerate()
            .map(|(i, &kind)| {
                let is_trace = kind == Cap::M && !seen_mut;
                if kind == Cap::M {
                    seen_mut = true;
                }
                let ty = if is_trace {
                    Ty::VecU64
                } else if self.variant == Variant::Types {
                    TY_ROT[(i + code) % 10]
                } else if kind == Cap::R {
                    Ty::U64
                } else {
                    Ty::VecU64
                };
                CapInfo {
                    kind,
                    name: format!("{}{}", if kind == Cap::R { 's' } else { 'm' }, i),
                    ty,
                    is_trace,
                    prime: PRIMES[i],
                    idx: i,
                }
            })
            .collect()
    }

    pub fn describe(&self) -> String {
        let caps = self.cap_infos();
        let c: Vec<String> = caps
            .iter()
            .map(|c| format!("{}: {}{}", c.name, if c.kind == Cap::R { "&" } else { "&mut " }, c.ty.name()))
            .collect();
        let a: Vec<String> = (0..self.nargs).map(|i| format!("a{}: {}", i, self.arg_ty(i))).collect();
        format!(
            "captures=|{}| args=|{}| ret={} call={} body={}",
            c.join(", "),
            a.join(", "),
            if self.ret { self.ret_ty() } else { "<none>" },
            if self.tc { format!("{}!(x, y,)", self.call_name()) } else { format!("{}!(x, y)", self.call_name()) },
            self.variant.name()
        )
    }

    // --------------------------------------------------------------------------------------------
    // body

    /// The closure / fn body. `call(args)` renders one recursive call: `rec!(..)` for the macro
    /// version, `twin(.., captures)` for the hand-written one. Everything else is identical text.
    fn body(&self, call: &dyn Fn(&[String]) -> String) -> Vec<String> {
        let k = self.nargs;
        let caps = self.cap_infos();
        let mut l: Vec<String> = Vec::new();
        for i in 0..k {
            if self.is_ref_arg(i) {
                l.push(format!("let v{i}: u64 = a{i}.len() as u64;"));
            } else {
                l.push(format!("let v{i}: u64 = a{i} as u64;"));
            }
        }
        let vs: Vec<String> = (0..k).map(|i| format!("v{i}")).collect();
        // call budget: a runaway recursion becomes a panic (caught in main) instead of a stack overflow
        if self.variant != Variant::Deep && self.variant != Variant::Churn {
            l.insert(0, "crate::support::tick();".to_string());
        }
        // trace: (call index, arguments), flattened
        if self.variant == Variant::Churn {
            // millions of calls: no per-call trace (return values and captures are still compared)
        } else if let Some(t) = caps.iter().find(|c| c.is_trace) {
            l.push(format!("let call_index = {}.len() as u64;", t.name));
            l.push(format!("{}.push(call_index);", t.name));
            for v in &vs {
                l.push(format!("{}.push({v});", t.name));
            }
        } else {
            l.push(format!("crate::support::trace(&[{}]);", vs.join(", ")));
        }
        // digest of the arguments (order-sensitive) and of every capture (distinct prime each)
        l.push("let mut h: u64 = v0;".to_string());
        for v in vs.iter().skip(1) {
            l.push(format!("h = h.wrapping_mul(3).wrapping_add({v});"));
        }
        // items declared inside the function that contains the invocation (a const, a fn, a struct): a nested fn sees them
        l.push("h = local_mix(h) ^ LOCAL_K;".to_string());
        l.push("h = LocalW(h).0;".to_string());
        for c in &caps {
            let read = if c.is_trace { format!("{}.len() as u64", c.name) } else { c.ty.read(&c.name, c.kind == Cap::M) };
            l.push(format!("h = h.wrapping_mul({}).wrapping_add({});", c.prime, read));
            if (c.kind == Cap::M && !c.is_trace) || c.ty == Ty::CellU64 {
                // (a Cell is written through a shared capture as well)
                l.push(c.ty.mutate(&c.name, c.prime));
            }
        }
        if self.variant == Variant::Refs {
            if k == 1 {
                l.push("h = h.wrapping_mul(37).wrapping_add(a0.first().copied().unwrap_or(5));".to_string());
            } else {
                l.push(format!("h = h.wrapping_mul(37).wrapping_add(a{}.last().copied().unwrap_or(5));", k - 1));
                l.push(format!("a{}.push(h % 1000);", k - 1));
            }
        }
        // argument lists of the recursive calls
        let cast = |i: usize, e: String| -> String {
            if self.is_ref_arg(i) {
                format!("a{i}")
            } else if self.arg_ty(i) == "u64" {
                e
            } else {
                format!("({e}) as {}", self.arg_ty(i))
            }
        };
        let a_expr = |i: usize| -> String {
            let other = if k == 2 {
                0
            } else if i + 1 < k {
                i + 1
            } else {
                1
            };
            format!("v{other}.wrapping_mul(3).wrapping_add(v{i}) % 1000")
        };
        // (the last argument of the second recursive call of the plain bodies is pure integer-literal arithmetic whose
        // type is only fixed by the parameter it is passed to: 2^36 does not fit the literal's fallback type)
        let literal_last = matches!(self.variant, Variant::Lin | Variant::Names | Variant::Churn) && k >= 2;
        let b_expr = |i: usize| -> String {
            if literal_last && i + 1 == k {
                format!("((1 << 36) >> 33) + {i}")
            } else {
                format!("v{i}.wrapping_add(h % 5 + {i}) % 1000")
            }
        };
        let compound = |i: usize, e: String, e2: String| -> String {
            // argument expressions with inner commas / braces (macro `expr` fragments)
            match i % 3 {
                1 => format!("if v0 > 3 {{ {e} }} else {{ core::cmp::max({e2}, 7) }}"),
                2 => format!("{{ let t = ({e}, {e2}); t.0 ^ (t.1 & 1) }}"),
                _ => format!("[{e}, {e2}][(v0 % 2) as usize]"),
            }
        };
        let mix = self.variant == Variant::Mix;
        let list = |first: String, which: u8, nested: Option<String>| -> Vec<String> {
            let mut v = vec![first];
            for i in 1..k {
                let e = if which == 0 { a_expr(i) } else { b_expr(i) };
                let e = if mix {
                    let e2 = if which == 0 { b_expr(i) } else { a_expr(i) };
                    compound(i, e, e2)
                } else {
                    e
                };
                let e = match (&nested, i) {
                    (Some(n), 1) => format!("({e}).wrapping_add({n}) % 1000"),
                    _ => e,
                };
                v.push(cast(i, e));
            }
            v
        };
        let cond = if k >= 2 { "v1 % 2 == 0" } else { "v0 % 3 == 0" };
        match self.variant {
            Variant::Lin | Variant::Types | Variant::Refs | Variant::Names | Variant::Deep | Variant::Churn => {
                let refs1 = self.variant == Variant::Refs && k == 1;
                let ca = call(&list(if refs1 { "&a0[1..]".into() } else { "a0 - 1".into() }, 0, None));
                let cb = call(&list(
                    if refs1 {
                        "&a0[..a0.len() / 2]".into()
                    } else if k == 1 && self.variant != Variant::Deep {
                        "a0 / 2".into()
                    } else {
                        "a0 - 1".into()
                    },
                    1,
                    None,
                ));
                // a `&mut` argument handed on in a recursive call is reborrowed, not moved: it is used again afterwards
                let reuse = if self.variant == Variant::Refs && k >= 2 { Some(format!("a{}", k - 1)) } else { None };
                if self.variant == Variant::Churn {
                    // explicit `return` on the base case (the common way to write it), tail expression otherwise
                    if self.ret {
                        l.push("if v0 == 0 {".into());
                        l.push("    return h;".into());
                        l.push("}".into());
                        l.push(format!("if {cond} {{"));
                        l.push(format!("    return h.wrapping_add({ca}.wrapping_mul(31));"));
                        l.push("}".into());
                        l.push(format!("h ^ {cb}.wrapping_mul(17)"));
                    } else {
                        l.push("if v0 == 0 {".into());
                        l.push("    return;".into());
                        l.push("}".into());
                        l.push(format!("if {cond} {{"));
                        l.push(format!("    {ca};"));
                        l.push("    return;".into());
                        l.push("}".into());
                        l.push(format!("{cb};"));
                    }
                } else if self.ret {
                    l.push("if v0 == 0 {".into());
                    l.push("    h".into());
                    l.push(format!("}} else if {cond} {{"));
                    if let Some(m) = &reuse {
                        l.push(format!("    let r = {ca};"));
                        l.push(format!("    {m}.push(r % 10);"));
                        l.push("    h.wrapping_add(r.wrapping_mul(31))".into());
                    } else {
                        l.push(format!("    h.wrapping_add({ca}.wrapping_mul(31))"));
                    }
                    l.push("} else {".into());
                    l.push(format!("    h ^ {cb}.wrapping_mul(17)"));
                    l.push("}".into());
                } else {
                    l.push("if v0 == 0 {".into());
                    l.push(format!("}} else if {cond} {{"));
                    l.push(format!("    {ca};"));
                    if let Some(m) = &reuse {
                        l.push(format!("    {m}.push(3);"));
                    }
                    l.push("} else {".into());
                    l.push(format!("    {cb};"));
                    if let Some(m) = &reuse {
                        l.push(format!("    let _len_after = {m}.len();"));
                    }
                    l.push("}".into());
                }
            }
            Variant::RetRef => unreachable!("retref shapes have their own source"),
            Variant::Two => {
                let ca = call(&list("a0 - 1".into(), 0, None));
                let cb = call(&list("a0 - 2".into(), 1, None));
                if self.ret {
                    l.push("if v0 < 2 {".into());
                    l.push("    h".into());
                    l.push(format!("}} else if {cond} {{"));
                    l.push(format!("    h ^ (({ca} % 1_000_003) * 3 + {cb} % 1_000_003)"));
                    l.push("} else {".into());
                    l.push(format!("    h.wrapping_add({cb}.wrapping_mul(3).wrapping_add({ca}))"));
                    l.push("}".into());
                } else {
                    l.push("if v0 < 2 {".into());
                    l.push(format!("}} else if {cond} {{"));
                    l.push(format!("    let _both = ({ca}, {cb});"));
                    l.push("} else {".into());
                    l.push(format!("    let _both = [{cb}, {ca}];"));
                    l.push("}".into());
                }
            }
            Variant::Mix => {
                // nested recursive call in argument position (needs a value, hence a return type,
                // and a second argument to sit in)
                let nested = if self.ret && k >= 2 {
                    let inner = call(&list("a0 / 2".into(), 1, None));
                    Some(format!("{inner}.0 % 1000"))
                } else {
                    None
                };
                let ca = call(&list("a0 - 1".into(), 0, nested));
                let cb = call(&list(if k == 1 { "a0 / 2".into() } else { "a0 - 1".into() }, 1, None));
                if self.ret {
                    l.push("if v0 == 0 {".into());
                    l.push("    (h, 0u32)".into());
                    l.push(format!("}} else if {cond} {{"));
                    l.push(format!("    let r = {ca};"));
                    l.push("    (h.wrapping_add(r.0.wrapping_mul(31)), r.1 + 1)".into());
                    l.push("} else {".into());
                    l.push(format!("    let r = {cb};"));
                    l.push("    (h ^ r.0.wrapping_mul(17), r.1 + 2)".into());
                    l.push("}".into());
                } else {
                    l.push("if v0 == 0 {".into());
                    l.push(format!("}} else if {cond} {{"));
                    l.push(format!("    {ca};"));
                    l.push("} else {".into());
                    l.push(format!("    {cb}"));
                    l.push("}".into());
                }
            }
        }
        l
    }

    /// Complete source of the shape's function, bracketed by the BEGIN/END markers.
    pub fn source(&self, fn_name: &str) -> String {
        if self.variant == Variant::Refs {
            return self.source_refs(fn_name);
        }
        if self.variant == Variant::RetRef {
            return self.source_retref(fn_name);
        }
        let id = self.id();
        let caps = self.cap_infos();
        let k = self.nargs;
        let tc = self.tc;
        let cname = self.call_name();
        let cname2 = cname.clone();
        let macro_call = move |a: &[String]| -> String {
            if tc {
                format!("{}!({},)", cname2, a.join(", "))
            } else {
                format!("{}!({})", cname2, a.join(", "))
            }
        };
        let cap_names: Vec<String> = caps.iter().map(|c| c.name.clone()).collect();
        let twin_call = move |a: &[String]| -> String {
            let mut all: Vec<String> = a.to_vec();
            all.extend(cap_names.iter().cloned());
            format!("twin({})", all.join(", "))
        };
        let mut s = String::new();
        let w = &mut s;
        writeln!(w, "// BEGIN SHAPE {} {}", id, self.describe()).unwrap();
        writeln!(w, "pub fn {fn_name}(inp: [u64; 4], k0: u64) -> Result<u64, String> {{").unwrap();
        writeln!(w, "    const LOCAL_K: u64 = 0x9E37;").unwrap();
        writeln!(w, "    fn local_mix(x: u64) -> u64 {{ x.rotate_left(7) ^ (LOCAL_K << 3) }}").unwrap();
        writeln!(w, "    struct LocalW(u64);").unwrap();
        if self.variant == Variant::Deep {
            writeln!(w, "    // the input whose first argument is 12 becomes the deep one").unwrap();
            writeln!(w, "    let inp = [if inp[0] == 12 {{ {} + k0 % 7 }} else {{ inp[0] }}, inp[1], inp[2], inp[3]];", DEEP_DEPTH).unwrap();
        }
        writeln!(w, "    // ---- macro version").unwrap();
        for c in &caps {
            let init = if c.is_trace { "Vec::new()".to_string() } else { c.ty.init(c.idx, c.kind == Cap::M) };
            writeln!(
                w,
                "    let {}{}: {} = {};",
                if c.kind == Cap::M { "mut " } else { "" },
                c.name,
                c.ty.decl_name(),
                init
            )
            .unwrap();
        }
        writeln!(w, "    let _ = crate::support::trace_take();").unwrap();
        let inputs: Vec<String> = (0..k)
            .map(|i| if self.arg_ty(i) == "u64" { format!("inp[{i}]") } else { format!("inp[{i}] as {}", self.arg_ty(i)) })
            .collect();
        writeln!(w, "    // MACRO BEGIN").unwrap();
        writeln!(w, "    let got_ret = {{").unwrap();
        let cap_list: Vec<String> = caps
            .iter()
            .map(|c| format!("{}: {}{}", c.name, if c.kind == Cap::R { "&" } else { "&mut " }, c.ty.name()))
            .collect();
        let arg_list: Vec<String> = (0..k).map(|i| format!("a{}: {}", i, self.arg_ty(i))).collect();
        writeln!(w, "        let mut lam = rec_lambda!({}, |{}| {{", cname, cap_list.join(", ")).unwrap();
        if self.ret {
            writeln!(w, "            |{}| -> {} {{", arg_list.join(", "), self.ret_ty()).unwrap();
        } else {
            writeln!(w, "            |{}| {{", arg_list.join(", ")).unwrap();
        }
        for line in self.body(&macro_call) {
            writeln!(w, "                {line}").unwrap();
        }
        writeln!(w, "            }}").unwrap();
        writeln!(w, "        }});").unwrap();
        let churn = self.variant == Variant::Churn;
        let churn_args = |first: &str| -> String {
            let mut v: Vec<String> = vec![first.to_string()];
            v.extend(inputs.iter().skip(1).cloned());
            v.join(", ")
        };
        if churn {
            // the input whose first argument is 12 becomes the long run: the closure is called millions of times at depth 0 / 1
            writeln!(w, "        let rounds: u64 = if inp[0] == 12 {{ {} }} else {{ 3 }};", CHURN_CALLS).unwrap();
            if self.ret {
                writeln!(w, "        let mut acc = 0u64;").unwrap();
                writeln!(w, "        for it in 0..rounds {{ acc = acc.wrapping_mul(3).wrapping_add(lam({})); }}", churn_args("it % 2")).unwrap();
                writeln!(w, "        acc").unwrap();
            } else {
                writeln!(w, "        for it in 0..rounds {{ lam({}); }}", churn_args("it % 2")).unwrap();
            }
        } else {
            writeln!(w, "        lam({})", inputs.join(", ")).unwrap();
        }
        writeln!(w, "    }};").unwrap();
        writeln!(w, "    // MACRO END").unwrap();
        writeln!(w, "    let got_trace = crate::support::trace_take();").unwrap();
        writeln!(w, "    // ---- hand-written twin: arguments, then the captures in the order they are listed").unwrap();
        let mut params = arg_list.clone();
        params.extend(cap_list.iter().cloned());
        if self.ret {
            writeln!(w, "    fn twin({}) -> {} {{", params.join(", "), self.ret_ty()).unwrap();
        } else {
            writeln!(w, "    fn twin({}) {{", params.join(", ")).unwrap();
        }
        for line in self.body(&twin_call) {
            writeln!(w, "        {line}").unwrap();
        }
        writeln!(w, "    }}").unwrap();
        for c in &caps {
            let init = if c.is_trace { "Vec::new()".to_string() } else { c.ty.init(c.idx, c.kind == Cap::M) };
            writeln!(
                w,
                "    let {}t_{}: {} = {};",
                if c.kind == Cap::M { "mut " } else { "" },
                c.name,
                c.ty.decl_name(),
                init
            )
            .unwrap();
        }
        let mut targs = inputs.clone();
        for c in &caps {
            targs.push(format!("{}t_{}", if c.kind == Cap::R { "&" } else { "&mut " }, c.name));
        }
        if churn {
            let mut rest: Vec<String> = vec!["it % 2".to_string()];
            rest.extend(targs.iter().skip(1).cloned());
            writeln!(w, "    let rounds: u64 = if inp[0] == 12 {{ {} }} else {{ 3 }};", CHURN_CALLS).unwrap();
            if self.ret {
                writeln!(w, "    let want_ret = {{ let mut acc = 0u64; for it in 0..rounds {{ acc = acc.wrapping_mul(3).wrapping_add(twin({})); }} acc }};", rest.join(", ")).unwrap();
            } else {
                writeln!(w, "    let want_ret = {{ for it in 0..rounds {{ twin({}); }} }};", rest.join(", ")).unwrap();
            }
        } else {
            writeln!(w, "    let want_ret = twin({});", targs.join(", ")).unwrap();
        }
        writeln!(w, "    let want_trace = crate::support::trace_take();").unwrap();
        writeln!(w, "    // ---- compare").unwrap();
        writeln!(w, "    crate::support::cmp(\"return value\", &got_ret, &want_ret)?;").unwrap();
        for c in &caps {
            let what = if c.is_trace {
                format!("capture {} (trace of (call index, arguments))", c.name)
            } else {
                format!("final state of capture {}", c.name)
            };
            writeln!(w, "    crate::support::cmp(\"{}\", &{}, &t_{})?;", what, c.name, c.name).unwrap();
        }
        writeln!(w, "    crate::support::cmp(\"thread-local trace of (call index, arguments)\", &got_trace, &want_trace)?;").unwrap();
        if churn {
            writeln!(w, "    Ok(rounds)").unwrap();
        } else {
            match caps.iter().find(|c| c.is_trace) {
                Some(t) => writeln!(w, "    Ok(({}.len() / {}) as u64)", t.name, k + 1).unwrap(),
                None => writeln!(w, "    Ok((got_trace.len() / {}) as u64)", k + 1).unwrap(),
            }
        }
        writeln!(w, "}}").unwrap();
        writeln!(w, "// END SHAPE {}", id).unwrap();
        s
    }
}

impl Shape {
    /// `refs` variant: the closure takes a reference-typed argument and is called several times with borrows of
    /// different, non-overlapping lifetimes (the borrowed buffer is modified between the calls; one borrow is of a
    /// local that dies while the closure is still alive), exactly like the hand-written twin.
    fn source_refs(&self, fn_name: &str) -> String {
        let id = self.id();
        let caps = self.cap_infos();
        let k = self.nargs;
        let tc = self.tc;
        let macro_call = move |a: &[String]| -> String {
            if tc {
                format!("rec!({},)", a.join(", "))
            } else {
                format!("rec!({})", a.join(", "))
            }
        };
        let cap_names: Vec<String> = caps.iter().map(|c| c.name.clone()).collect();
        let twin_call = move |a: &[String]| -> String {
            let mut all: Vec<String> = a.to_vec();
            all.extend(cap_names.iter().cloned());
            format!("twin({})", all.join(", "))
        };
        let cap_list: Vec<String> = caps
            .iter()
            .map(|c| format!("{}: {}{}", c.name, if c.kind == Cap::R { "&" } else { "&mut " }, c.ty.name()))
            .collect();
        let arg_list: Vec<String> = (0..k).map(|i| format!("a{}: {}", i, self.arg_ty(i))).collect();
        // the three call sites: (leading u64 arguments, which buffer expression)
        let lead = |scale: &str| -> Vec<String> { (0..k.saturating_sub(1)).map(|i| format!("inp[{i}] {scale}")).collect() };
        let calls = |f: &str, buf: &str, data: &str, extra_caps: &[String]| -> Vec<String> {
            let with = |mut v: Vec<String>, last: String| -> String {
                v.push(last);
                v.extend(extra_caps.iter().cloned());
                format!("{f}({})", v.join(", "))
            };
            if k == 1 {
                vec![
                    format!("let r1 = {};", with(vec![], format!("&{data}[..]"))),
                    format!("let r2 = {{ let local: Vec<u64> = vec![k0 % 3, 5, inp[0] % 11, 8]; {} }};", with(vec![], "&local[1..]".to_string())),
                    format!("let r3 = {};", with(vec![], format!("&{data}[{data}.len() / 2..]"))),
                ]
            } else {
                vec![
                    format!("let r1 = {};", with(lead(""), format!("&mut {buf}"))),
                    format!("{buf}.push(4242);"),
                    format!("let r2 = {};", with(lead("/ 2 + 1"), format!("&mut {buf}"))),
                    format!("{buf}.truncate({buf}.len() / 2 + 1);"),
                    format!("let r3 = {{ let mut local: Vec<u64> = vec![k0 % 7]; let r = {}; local.len() as u64 + {buf}.len() as u64 + 0 * 0; r }};", with(lead("% 7"), "&mut local".to_string())),
                ]
            }
        };
        let mut s = String::new();
        let w = &mut s;
        writeln!(w, "// BEGIN SHAPE {} {}", id, self.describe()).unwrap();
        writeln!(w, "pub fn {fn_name}(inp: [u64; 4], k0: u64) -> Result<u64, String> {{").unwrap();
        writeln!(w, "    const LOCAL_K: u64 = 0x9E37;").unwrap();
        writeln!(w, "    fn local_mix(x: u64) -> u64 {{ x.rotate_left(7) ^ (LOCAL_K << 3) }}").unwrap();
        writeln!(w, "    struct LocalW(u64);").unwrap();
        writeln!(w, "    // ---- macro version").unwrap();
        for c in &caps {
            let init = if c.is_trace { "Vec::new()".to_string() } else { c.ty.init(c.idx, c.kind == Cap::M) };
            writeln!(w, "    let {}{}: {} = {};", if c.kind == Cap::M { "mut " } else { "" }, c.name, c.ty.decl_name(), init).unwrap();
        }
        writeln!(w, "    let mut buf: Vec<u64> = vec![k0 % 7, 3];").unwrap();
        writeln!(w, "    let data: Vec<u64> = (0..(inp[0] % 9 + 2)).map(|x| x * 7 + k0 % 5).collect();").unwrap();
        writeln!(w, "    let _ = crate::support::trace_take();").unwrap();
        writeln!(w, "    // MACRO BEGIN").unwrap();
        writeln!(w, "    let got_ret = {{").unwrap();
        writeln!(w, "        let mut lam = rec_lambda!(rec, |{}| {{", cap_list.join(", ")).unwrap();
        if self.ret {
            writeln!(w, "            |{}| -> {} {{", arg_list.join(", "), self.ret_ty()).unwrap();
        } else {
            writeln!(w, "            |{}| {{", arg_list.join(", ")).unwrap();
        }
        for line in self.body(&macro_call) {
            writeln!(w, "                {line}").unwrap();
        }
        writeln!(w, "            }}").unwrap();
        writeln!(w, "        }});").unwrap();
        for line in calls("lam", "buf", "data", &[]) {
            writeln!(w, "        {line}").unwrap();
        }
        writeln!(w, "        (r1, r2, r3)").unwrap();
        writeln!(w, "    }};").unwrap();
        writeln!(w, "    // MACRO END").unwrap();
        writeln!(w, "    let got_trace = crate::support::trace_take();").unwrap();
        writeln!(w, "    // ---- hand-written twin: arguments, then the captures in the order they are listed").unwrap();
        let mut params = arg_list.clone();
        params.extend(cap_list.iter().cloned());
        if self.ret {
            writeln!(w, "    fn twin({}) -> {} {{", params.join(", "), self.ret_ty()).unwrap();
        } else {
            writeln!(w, "    fn twin({}) {{", params.join(", ")).unwrap();
        }
        for line in self.body(&twin_call) {
            writeln!(w, "        {line}").unwrap();
        }
        writeln!(w, "    }}").unwrap();
        for c in &caps {
            let init = if c.is_trace { "Vec::new()".to_string() } else { c.ty.init(c.idx, c.kind == Cap::M) };
            writeln!(w, "    let {}t_{}: {} = {};", if c.kind == Cap::M { "mut " } else { "" }, c.name, c.ty.decl_name(), init).unwrap();
        }
        writeln!(w, "    let mut t_buf: Vec<u64> = vec![k0 % 7, 3];").unwrap();
        let tcaps: Vec<String> = caps.iter().map(|c| format!("{}t_{}", if c.kind == Cap::R { "&" } else { "&mut " }, c.name)).collect();
        writeln!(w, "    let want_ret = {{").unwrap();
        for line in calls("twin", "t_buf", "data", &tcaps) {
            writeln!(w, "        {line}").unwrap();
        }
        writeln!(w, "        (r1, r2, r3)").unwrap();
        writeln!(w, "    }};").unwrap();
        writeln!(w, "    let want_trace = crate::support::trace_take();").unwrap();
        writeln!(w, "    // ---- compare").unwrap();
        writeln!(w, "    crate::support::cmp(\"return values of the three calls\", &got_ret, &want_ret)?;").unwrap();
        writeln!(w, "    crate::support::cmp(\"buffer passed by &mut through the recursion\", &buf, &t_buf)?;").unwrap();
        for c in &caps {
            let what = if c.is_trace {
                format!("capture {} (trace of (call index, arguments))", c.name)
            } else {
                format!("final state of capture {}", c.name)
            };
            writeln!(w, "    crate::support::cmp(\"{}\", &{}, &t_{})?;", what, c.name, c.name).unwrap();
        }
        writeln!(w, "    crate::support::cmp(\"thread-local trace of (call index, arguments)\", &got_trace, &want_trace)?;").unwrap();
        match caps.iter().find(|c| c.is_trace) {
            Some(t) => writeln!(w, "    Ok(({}.len() / {}) as u64)", t.name, k + 1).unwrap(),
            None => writeln!(w, "    Ok((got_trace.len() / {}) as u64)", k + 1).unwrap(),
        }
        writeln!(w, "}}").unwrap();
        writeln!(w, "// END SHAPE {}", id).unwrap();
        s
    }
}

impl Shape {
    /// `retref` variant: one shared capture `s0: &Vec<u64>`, return type `&u64` borrowed from it
    fn source_retref(&self, fn_name: &str) -> String {
        let id = self.id();
        let k = self.nargs;
        let tc = self.tc;
        let arg_list: Vec<String> = (0..k).map(|i| format!("a{}: u64", i)).collect();
        let body = |call: &dyn Fn(&[String]) -> String| -> Vec<String> {
            let mut l: Vec<String> = vec!["crate::support::tick();".to_string()];
            let vs: Vec<String> = (0..k).map(|i| format!("a{i}")).collect();
            l.push(format!("crate::support::trace(&[{}]);", vs.join(", ")));
            l.push("let mut h: u64 = a0;".to_string());
            for v in vs.iter().skip(1) {
                l.push(format!("h = h.wrapping_mul(3).wrapping_add(*&{v});"));
            }
            l.push("let idx = (h % s0.len() as u64) as usize;".to_string());
            let mut args: Vec<String> = vec!["a0 - 1".to_string()];
            for i in 1..k {
                args.push(format!("a{i}.wrapping_mul(3).wrapping_add(h) % 1000"));
            }
            let c = call(&args);
            l.push("if a0 == 0 {".into());
            l.push("    &s0[idx]".into());
            l.push("} else {".into());
            l.push(format!("    let r = {c};"));
            l.push("    if *r % 2 == 0 { r } else { &s0[idx] }".into());
            l.push("}".into());
            l
        };
        let macro_call = move |a: &[String]| -> String {
            if tc {
                format!("rec!({},)", a.join(", "))
            } else {
                format!("rec!({})", a.join(", "))
            }
        };
        let twin_call = |a: &[String]| -> String { format!("twin({}, s0)", a.join(", ")) };
        let inputs: Vec<String> = (0..k).map(|i| format!("inp[{i}]")).collect();
        let mut s = String::new();
        let w = &mut s;
        writeln!(w, "// BEGIN SHAPE {} {}", id, self.describe()).unwrap();
        writeln!(w, "pub fn {fn_name}(inp: [u64; 4], k0: u64) -> Result<u64, String> {{").unwrap();
        writeln!(w, "    let s0: Vec<u64> = (0..(k0 % 5 + 3)).map(|x| x * 11 + k0 % 7).collect();").unwrap();
        writeln!(w, "    let _ = crate::support::trace_take();").unwrap();
        writeln!(w, "    // MACRO BEGIN").unwrap();
        writeln!(w, "    let got_ret: u64 = {{").unwrap();
        writeln!(w, "        let mut lam = rec_lambda!(rec, |s0: &Vec<u64>| {{").unwrap();
        writeln!(w, "            |{}| -> &u64 {{", arg_list.join(", ")).unwrap();
        for line in body(&macro_call) {
            writeln!(w, "                {line}").unwrap();
        }
        writeln!(w, "            }}").unwrap();
        writeln!(w, "        }});").unwrap();
        writeln!(w, "        let r: &u64 = lam({});", inputs.join(", ")).unwrap();
        writeln!(w, "        let r2: &u64 = lam({});", inputs.iter().map(|x| format!("{x} / 2")).collect::<Vec<_>>().join(", ")).unwrap();
        writeln!(w, "        r.wrapping_mul(1009).wrapping_add(*r2)").unwrap();
        writeln!(w, "    }};").unwrap();
        writeln!(w, "    // MACRO END").unwrap();
        writeln!(w, "    let got_trace = crate::support::trace_take();").unwrap();
        writeln!(w, "    fn twin({}, s0: &Vec<u64>) -> &u64 {{", arg_list.join(", ")).unwrap();
        for line in body(&twin_call) {
            writeln!(w, "        {line}").unwrap();
        }
        writeln!(w, "    }}").unwrap();
        writeln!(w, "    let want_ret: u64 = {{").unwrap();
        writeln!(w, "        let r: &u64 = twin({}, &s0);", inputs.join(", ")).unwrap();
        writeln!(w, "        let r2: &u64 = twin({}, &s0);", inputs.iter().map(|x| format!("{x} / 2")).collect::<Vec<_>>().join(", ")).unwrap();
        writeln!(w, "        r.wrapping_mul(1009).wrapping_add(*r2)").unwrap();
        writeln!(w, "    }};").unwrap();
        writeln!(w, "    let want_trace = crate::support::trace_take();").unwrap();
        writeln!(w, "    crate::support::cmp(\"value behind the returned reference\", &got_ret, &want_ret)?;").unwrap();
        writeln!(w, "    crate::support::cmp(\"thread-local trace of (call index, arguments)\", &got_trace, &want_trace)?;").unwrap();
        writeln!(w, "    Ok((got_trace.len() / {}) as u64)", k).unwrap();
        writeln!(w, "}}").unwrap();
        writeln!(w, "// END SHAPE {}", id).unwrap();
        s
    }
}

pub fn all_patterns() -> Vec<Vec<Cap>> {
    let mut v = vec![];
    for len in 0..=4usize {
        for bits in 0..(1u32 << len) {
            v.push((0..len).map(|i| if bits >> (len - 1 - i) & 1 == 0 { Cap::R } else { Cap::M }).collect());
        }
    }
    v
}

/// The complete grid for the given body variants, in a fixed order.
pub fn all_shapes(variants: &[Variant]) -> Vec<Shape> {
    let mut v = vec![];
    for &variant in variants {
        for caps in all_patterns() {
            if variant == Variant::Types && caps.is_empty() {
                continue; // nothing to vary
            }
            for nargs in 1..=4 {
                for ret in [true, false] {
                    for tc in [false, true] {
                        if variant == Variant::Deep && (caps.len() > 2 || nargs > 2 || tc) {
                            continue; // sub-grid: depth is what is varied here
                        }
                        if variant == Variant::Churn && (caps.len() > 1 || nargs > 2 || tc) {
                            continue; // sub-grid: the number of calls is what is varied here
                        }
                        if variant == Variant::RetRef && (caps != vec![Cap::R] || !ret) {
                            continue; // one shared capture to borrow from (elision needs exactly one reference parameter)
                        }
                        v.push(Shape { variant, caps: caps.clone(), nargs, ret, tc });
                    }
                }
            }
        }
    }
    v
}

// ------------------------------------------------------------------------------------------------
// crate emission

pub const SHAPES_PER_MODULE: usize = 64;

pub struct Emitted {
    /// (module file name relative to src/, shapes in it)
    pub modules: Vec<(String, Vec<Shape>)>,
}

fn write_if_changed(path: &std::path::Path, content: &str) -> std::io::Result<()> {
    if let Ok(old) = std::fs::read_to_string(path) {
        if old == content {
            return Ok(());
        }
    }
    std::fs::write(path, content)
}

pub fn cargo_toml(lambda_path: &str) -> String {
    format!(
        r#"# generated by lambdagen (property C20) - do not edit
[package]
name = "lambda_shapes"
version = "0.1.0"
edition = "2021"

[dependencies]
rlib_lambda = {{ path = "{lambda_path}" }}

# correctness of macro expansion does not depend on optimisation; compile time does
[profile.release]
opt-level = 0
debug = false
codegen-units = 16
incremental = false
overflow-checks = true
debug-assertions = false
lto = "off"

# the same code with debug assertions compiled in (the macro expands into this crate, so a debug_assert! or a
# cfg!(debug_assertions) inside the expansion follows this crate's profile)
[profile.checked]
inherits = "release"
debug-assertions = true

[workspace]
"#
    )
}

const SUPPORT_RS: &str = r#"// generated by lambdagen (property C20) - do not edit
use std::cell::{Cell, RefCell};
use std::fmt::Debug;

thread_local! {
    /// trace for shapes without a mutable capture: the macro expands to a plain nested `fn`, which
    /// can reach a thread-local just like the hand-written twin
    static TRACE: RefCell<Vec<u64>> = RefCell::new(Vec::new());
    static VERBOSE: Cell<bool> = Cell::new(false);
    static CALLS: Cell<u64> = Cell::new(0);
}

/// far above what any generated body needs (< 500 calls per run); `trace_take` resets the budget
pub const CALL_BUDGET: u64 = 5_000;

pub fn tick() {
    let n = CALLS.with(|c| {
        c.set(c.get() + 1);
        c.get()
    });
    if n > CALL_BUDGET {
        panic!("call budget exceeded: more than {} recursive calls in one run (runaway recursion)", CALL_BUDGET);
    }
}

pub fn trace(vals: &[u64]) {
    TRACE.with(|t| {
        let mut t = t.borrow_mut();
        let i = t.len() as u64;
        t.push(i);
        t.extend_from_slice(vals);
    })
}

/// returns the thread-local trace, clears it and resets the call budget
pub fn trace_take() -> Vec<u64> {
    CALLS.with(|c| c.set(0));
    TRACE.with(|t| std::mem::take(&mut *t.borrow_mut()))
}

pub fn set_verbose(v: bool) {
    VERBOSE.with(|c| c.set(v));
}

fn clip(s: String) -> String {
    if s.len() > 400 {
        let mut e = 400;
        while !s.is_char_boundary(e) {
            e -= 1;
        }
        format!("{}...({} bytes)", &s[..e], s.len())
    } else {
        s
    }
}

pub fn cmp<T: PartialEq + Debug>(what: &str, got: &T, want: &T) -> Result<(), String> {
    if VERBOSE.with(|c| c.get()) {
        println!("    {}: macro = {}", what, clip(format!("{:?}", got)));
        println!("    {}: twin  = {}", what, clip(format!("{:?}", want)));
    }
    if got == want {
        Ok(())
    } else {
        Err(format!("{}: macro closure gives {} but hand-written recursion gives {}", what, clip(format!("{:?}", got)), clip(format!("{:?}", want))))
    }
}

pub type ShapeFn = fn([u64; 4], u64) -> Result<u64, String>;
"#;

const MAIN_RS_HEAD: &str = r#"// generated by lambdagen (property C20) - do not edit
#![allow(unused, clippy::all)]

mod support;
"#;

const MAIN_RS_TAIL: &str = r#"
fn splitmix64(x: &mut u64) -> u64 {
    *x = x.wrapping_add(0x9E37_79B9_7F4A_7C15);
    let mut z = *x;
    z = (z ^ (z >> 30)).wrapping_mul(0xBF58_476D_1CE4_E5B9);
    z = (z ^ (z >> 27)).wrapping_mul(0x94D0_49BB_1331_11EB);
    z ^ (z >> 31)
}

/// 6 inputs: the first argument bounds the recursion depth (0, 1, then 2..=12)
fn inputs(seed: u64) -> Vec<([u64; 4], u64)> {
    let mut x = seed ^ 0xC20C20;
    let mut v = Vec::new();
    for j in 0..6u64 {
        let n = match j {
            0 => 0,
            1 => 1,
            2 => 12,
            _ => 2 + splitmix64(&mut x) % 11,
        };
        let inp = [n, splitmix64(&mut x) % 1000, splitmix64(&mut x) % 1000, splitmix64(&mut x) % 1000];
        v.push((inp, splitmix64(&mut x)));
    }
    v
}

fn main() {
    // the call budget bounds the depth; 5000 unoptimised frames need more than the default stack
    let code = std::thread::Builder::new()
        .stack_size(6usize << 30)
        .spawn(real_main)
        .expect("spawn")
        .join()
        .unwrap_or(3);
    std::process::exit(code);
}

fn real_main() -> i32 {
    let args: Vec<String> = std::env::args().collect();
    let mut seed = 1u64;
    let mut start = 0usize;
    let mut verbose = false;
    let mut i = 1;
    while i < args.len() {
        match args[i].as_str() {
            "--seed" => {
                seed = args[i + 1].parse().expect("--seed N");
                i += 1;
            }
            "--start" => {
                start = args[i + 1].parse().expect("--start INDEX");
                i += 1;
            }
            "--verbose" => verbose = true,
            _ => {}
        }
        i += 1;
    }
    support::set_verbose(verbose);
    std::panic::set_hook(Box::new(|_| {}));
    let mut all: Vec<(&'static str, support::ShapeFn)> = Vec::new();
    for t in TABLES {
        all.extend_from_slice(t);
    }
    let ins = inputs(seed);
    let (mut shapes, mut comparisons, mut failures, mut calls) = (0u64, 0u64, 0u64, 0u64);
    for (idx, (id, f)) in all.iter().enumerate().skip(start) {
        println!("BEGIN {} {}", idx, id);
        shapes += 1;
        let mut fail: Option<String> = None;
        for (inp, k0) in &ins {
            if verbose {
                println!("  input {:?} k0={}", inp, k0);
            }
            comparisons += 1;
            let r = std::panic::catch_unwind(|| f(*inp, *k0));
            let r = match r {
                Ok(r) => r,
                Err(p) => {
                    let msg = if let Some(s) = p.downcast_ref::<&str>() {
                        s.to_string()
                    } else if let Some(s) = p.downcast_ref::<String>() {
                        s.clone()
                    } else {
                        "<non-string payload>".to_string()
                    };
                    let _ = support::trace_take();
                    Err(format!("panic: {}", msg))
                }
            };
            match r {
                Ok(n) => calls += n,
                Err(e) => {
                    if fail.is_none() {
                        fail = Some(format!("input={:?} k0={} {}", inp, k0, e));
                    }
                }
            }
        }
        match fail {
            None => println!("SHAPE {} OK", id),
            Some(e) => {
                failures += 1;
                println!("SHAPE {} FAIL {}", id, e.replace('\n', " "));
            }
        }
    }
    println!("SUMMARY shapes={} comparisons={} failures={} calls={}", shapes, comparisons, failures, calls);
    if failures == 0 {
        0
    } else {
        1
    }
}
"#;

/// Writes the crate. Files whose content is unchanged are left alone (keeps cargo's fingerprints).
pub fn emit(dir: &std::path::Path, shapes: &[Shape], lambda_path: &str) -> std::io::Result<Emitted> {
    let src = dir.join("src");
    std::fs::create_dir_all(&src)?;
    write_if_changed(&dir.join("Cargo.toml"), &cargo_toml(lambda_path))?;
    write_if_changed(&src.join("support.rs"), SUPPORT_RS)?;
    let mut modules: Vec<(String, Vec<Shape>)> = Vec::new();
    for (mi, chunk) in shapes.chunks(SHAPES_PER_MODULE).enumerate() {
        modules.push((format!("shapes_{:02}.rs", mi), chunk.to_vec()));
    }
    // stale module files from a previous, larger emission
    for e in std::fs::read_dir(&src)? {
        let e = e?;
        let n = e.file_name().to_string_lossy().to_string();
        if n.starts_with("shapes_") && n.ends_with(".rs") && !modules.iter().any(|(m, _)| *m == n) {
            std::fs::remove_file(e.path())?;
        }
    }
    let mut main = String::from(MAIN_RS_HEAD);
    let mut fn_no = 0usize;
    for (name, chunk) in &modules {
        let modname = name.trim_end_matches(".rs");
        writeln!(main, "mod {modname};").unwrap();
        let mut m = String::new();
        m.push_str("// generated by lambdagen (property C20) - do not edit\n");
        m.push_str("#![allow(unused, clippy::all)]\n");
        m.push_str("use rlib_lambda::rec_lambda;\n\n");
        let mut table = String::from("pub const TABLE: &[(&str, crate::support::ShapeFn)] = &[\n");
        for sh in chunk {
            let fname = format!("shape_{:04}", fn_no);
            fn_no += 1;
            m.push_str(&sh.source(&fname));
            m.push('\n');
            writeln!(table, "    (\"{}\", {}),", sh.id(), fname).unwrap();
        }
        table.push_str("];\n");
        m.push_str(&table);
        write_if_changed(&src.join(name), &m)?;
    }
    main.push_str("\nconst TABLES: &[&[(&str, support::ShapeFn)]] = &[\n");
    for (name, _) in &modules {
        writeln!(main, "    {}::TABLE,", name.trim_end_matches(".rs")).unwrap();
    }
    main.push_str("];\n");
    main.push_str(MAIN_RS_TAIL);
    write_if_changed(&src.join("main.rs"), &main)?;
    Ok(Emitted { modules })
}
