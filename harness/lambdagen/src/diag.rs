//! Parsing of rendered rustc/cargo diagnostics and mapping of their locations onto generated shapes.

use std::collections::BTreeMap;
use std::path::Path;

#[derive(Clone, Debug)]
pub struct Diag {
    /// first line, e.g. `error[E0308]: mismatched types`
    pub msg: String,
    /// every `--> file:line:col` / `::: file:line:col` of the block
    pub locs: Vec<(String, usize)>,
    pub text: String,
}

/// Splits human-rendered compiler output into error blocks (header line up to the next blank line).
/// Summary lines (`aborting due to`, `could not compile`) are not diagnostics and are skipped.
pub fn parse_diags(stderr: &str) -> Vec<Diag> {
    let mut out = Vec::new();
    let mut cur: Option<Diag> = None;
    for line in stderr.lines() {
        let is_header = line.starts_with("error: ") || line.starts_with("error[");
        if is_header || line.trim().is_empty() || line.starts_with("warning") {
            if let Some(d) = cur.take() {
                out.push(d);
            }
        }
        if is_header {
            if line.starts_with("error: aborting due to") || line.starts_with("error: could not compile") {
                continue;
            }
            cur = Some(Diag { msg: line.to_string(), locs: vec![], text: String::new() });
        }
        if let Some(d) = cur.as_mut() {
            d.text.push_str(line);
            d.text.push('\n');
            let t = line.trim_start();
            if let Some(rest) = t.strip_prefix("--> ").or_else(|| t.strip_prefix("::: ")) {
                let mut it = rest.trim().rsplitn(3, ':');
                let _col = it.next();
                let ln = it.next().and_then(|x| x.parse::<usize>().ok());
                let file = it.next();
                if let (Some(ln), Some(file)) = (ln, file) {
                    d.locs.push((file.to_string(), ln));
                }
            } else if let Some((num, _)) = t.split_once('|') {
                // a source line shown in the gutter ("290 |   code"): every line the diagnostic talks about, in the
                // file of the last location header (secondary labels such as "value moved into closure here" have
                // no header of their own)
                if let (Ok(ln), Some(file)) = (num.trim().parse::<usize>(), d.locs.last().map(|l| l.0.clone())) {
                    d.locs.push((file, ln));
                }
            }
        }
    }
    if let Some(d) = cur.take() {
        out.push(d);
    }
    out
}

#[derive(Clone, Debug)]
pub struct Region {
    pub id: String,
    pub begin: usize,
    pub end: usize,
    /// lines of the macro invocation and of the call of the closure it returns
    pub macro_begin: usize,
    pub macro_end: usize,
}

/// Reads the BEGIN/END markers back from the emitted module files: file name -> regions.
pub fn scan_markers(src_dir: &Path) -> std::io::Result<BTreeMap<String, Vec<Region>>> {
    let mut map = BTreeMap::new();
    for e in std::fs::read_dir(src_dir)? {
        let e = e?;
        let name = e.file_name().to_string_lossy().to_string();
        if !(name.starts_with("shapes_") && name.ends_with(".rs")) {
            continue;
        }
        let text = std::fs::read_to_string(e.path())?;
        let mut regions: Vec<Region> = Vec::new();
        let mut cur: Option<Region> = None;
        for (i, line) in text.lines().enumerate() {
            let ln = i + 1;
            if let Some(rest) = line.strip_prefix("// BEGIN SHAPE ") {
                let id = rest.split(' ').next().unwrap_or("").to_string();
                cur = Some(Region { id, begin: ln, end: 0, macro_begin: 0, macro_end: 0 });
            } else if line.starts_with("// END SHAPE ") {
                if let Some(mut r) = cur.take() {
                    r.end = ln;
                    regions.push(r);
                }
            } else if line.trim() == "// MACRO BEGIN" {
                if let Some(r) = cur.as_mut() {
                    r.macro_begin = ln;
                }
            } else if line.trim() == "// MACRO END" {
                if let Some(r) = cur.as_mut() {
                    r.macro_end = ln;
                }
            }
        }
        map.insert(name, regions);
    }
    Ok(map)
}

#[derive(Clone, Debug, PartialEq)]
pub enum Where {
    /// inside the macro invocation of this shape (or the call of the closure it produced)
    Macro(String),
    /// inside the shape's function but in generator-written code (twin, comparison)
    Twin(String),
    /// not in a generated shape
    Elsewhere,
}

/// Locates one diagnostic. A location inside a macro region wins over a twin location, which wins
/// over locations elsewhere (e.g. the macro definition file).
pub fn locate(d: &Diag, crate_dir: &Path, markers: &BTreeMap<String, Vec<Region>>) -> Where {
    let mut best = Where::Elsewhere;
    for (file, ln) in &d.locs {
        let p = Path::new(file);
        let fname = match p.file_name() {
            Some(f) => f.to_string_lossy().to_string(),
            None => continue,
        };
        // the generated crate's files are reported relative to its root (`src/shapes_03.rs`) or,
        // in some cargo versions, absolute
        let in_crate = if p.is_absolute() { p.starts_with(crate_dir.join("src")) } else { p.parent() == Some(Path::new("src")) };
        if !in_crate {
            continue;
        }
        if let Some(regions) = markers.get(&fname) {
            for r in regions {
                if *ln >= r.begin && *ln <= r.end {
                    if *ln >= r.macro_begin && *ln <= r.macro_end {
                        return Where::Macro(r.id.clone());
                    } else if best == Where::Elsewhere {
                        best = Where::Twin(r.id.clone());
                    }
                }
            }
        }
    }
    best
}

#[cfg(test)]
mod tests {
    use super::*;

    #[test]
    fn maps_locations_to_regions() {
        let dir = std::env::temp_dir().join(format!("lambdagen-diag-test-{}", std::process::id()));
        let src = dir.join("src");
        std::fs::create_dir_all(&src).unwrap();
        let file = "// header\n// BEGIN SHAPE c=R_a=1_ret_nc_b=lin desc\nfn f() {\n    // MACRO BEGIN\n    let x = m!();\n    // MACRO END\n    twin();\n}\n// END SHAPE c=R_a=1_ret_nc_b=lin\npub const TABLE: u8 = 0;\n";
        std::fs::write(src.join("shapes_00.rs"), file).unwrap();
        let markers = scan_markers(&src).unwrap();
        let r = &markers["shapes_00.rs"][0];
        assert_eq!((r.begin, r.macro_begin, r.macro_end, r.end), (2, 4, 6, 9));
        let out = "   Compiling x v0.1.0\nerror[E0308]: mismatched types\n  --> /somewhere/lambda/src/lib.rs:19:17\n   |\n  ::: src/shapes_00.rs:5:13\n   |\n5  |     let x = m!();\n   |             ---- in this macro invocation\n\nerror: twin broken\n --> src/shapes_00.rs:7:5\n\nerror: scaffold\n --> src/shapes_00.rs:10:1\n\nerror: other crate\n --> /somewhere/lambda/src/lib.rs:3:1\n\nerror: aborting due to 4 previous errors\n\nerror: could not compile `x` (bin \"x\") due to 4 previous errors\n";
        let d = parse_diags(out);
        assert_eq!(d.len(), 4);
        assert_eq!(locate(&d[0], &dir, &markers), Where::Macro("c=R_a=1_ret_nc_b=lin".into()));
        assert_eq!(locate(&d[1], &dir, &markers), Where::Twin("c=R_a=1_ret_nc_b=lin".into()));
        assert_eq!(locate(&d[2], &dir, &markers), Where::Elsewhere);
        assert_eq!(locate(&d[3], &dir, &markers), Where::Elsewhere);
        let _ = std::fs::remove_dir_all(&dir);
    }
}
