//! lambdagen - program generator and runner for property C20 (`rec_lambda!` closures equal explicit
//! recursion for every supported macro shape).
//!
//!   lambdagen --emit <dir>                      write the differential crate, do nothing else
//!   lambdagen --run <dir> [--out result.json] [--tier quick|thorough] [--seed N]
//!                                               emit, build offline, run, judge, write the result file
//!   lambdagen --replay-shape <shape id> <dir>   the same for exactly one shape, verbosely; exit 1 if
//!                                               it does not compile or behaves differently
//!   lambdagen --case <shape id> [--dir <dir>]   alias of --replay-shape (engine convention)
//! options: --lambda-path <path>  crate providing `rec_lambda!` (default /repo/rlib/lambda)
//!          --variants lin,two,types,mix         body variants to generate (default: all)
//!          --verbose
//!
//! Oracle: each generated function holds the macro closure and a hand-written recursive `fn` with the
//! same body text (only `rec!(args)` is replaced by `twin(args, captures..)`); return values, final
//! state of every capture and the (call index, arguments) traces must agree. A compile error inside
//! a macro invocation is a violation of "compiles"; anything else that goes wrong is inconclusive.

mod diag;
mod gen;

use common::{hash_str, Engine, Json, Report};
use diag::{locate, parse_diags, scan_markers, Where};
use gen::{Shape, Variant, ALL_VARIANTS, INPUTS_PER_SHAPE};
use std::collections::{BTreeMap, BTreeSet};
use std::io::Read;
use std::path::{Path, PathBuf};
use std::process::{Command, Stdio};
use std::time::{Duration, Instant};

const DEFAULT_LAMBDA: &str = "/repo/rlib/lambda";
const BUILD_TIMEOUT_S: u64 = 900;
const RUN_TIMEOUT_S: u64 = 300;
/// one shape runs 6 inputs of at most a few hundred calls each: milliseconds
const SHAPE_TIMEOUT_S: u64 = 20;
const MAX_REBUILDS: usize = 3;
const MAX_CRASH_RESTARTS: usize = 25;

struct Finished {
    code: Option<i32>,
    signal_or_abnormal: bool,
    timed_out: bool,
    spawn_error: Option<String>,
    stdout: String,
    stderr: String,
    wall_s: f64,
}

fn run_cmd(mut cmd: Command, timeout: Duration) -> Finished {
    let t0 = Instant::now();
    cmd.stdin(Stdio::null()).stdout(Stdio::piped()).stderr(Stdio::piped());
    let mut child = match cmd.spawn() {
        Ok(c) => c,
        Err(e) => {
            return Finished {
                code: None,
                signal_or_abnormal: false,
                timed_out: false,
                spawn_error: Some(e.to_string()),
                stdout: String::new(),
                stderr: String::new(),
                wall_s: 0.0,
            }
        }
    };
    let mut so = child.stdout.take().unwrap();
    let mut se = child.stderr.take().unwrap();
    let h1 = std::thread::spawn(move || {
        let mut b = Vec::new();
        let _ = so.read_to_end(&mut b);
        String::from_utf8_lossy(&b).to_string()
    });
    let h2 = std::thread::spawn(move || {
        let mut b = Vec::new();
        let _ = se.read_to_end(&mut b);
        String::from_utf8_lossy(&b).to_string()
    });
    let mut timed_out = false;
    let status = loop {
        match child.try_wait() {
            Ok(Some(s)) => break Some(s),
            Ok(None) => {
                if t0.elapsed() > timeout {
                    timed_out = true;
                    let _ = child.kill();
                    break child.wait().ok();
                }
                std::thread::sleep(Duration::from_millis(20));
            }
            Err(_) => break None,
        }
    };
    let stdout = h1.join().unwrap_or_default();
    let stderr = h2.join().unwrap_or_default();
    let code = status.and_then(|s| s.code());
    Finished {
        code,
        signal_or_abnormal: code.is_none(),
        timed_out,
        spawn_error: None,
        stdout,
        stderr,
        wall_s: t0.elapsed().as_secs_f64(),
    }
}

/// Runs the generated binary. `stall`: longest silence on stdout that is tolerated (the binary
/// prints a line before and after every shape, so a stall is attributable to the shape announced
/// last); `total`: overall limit (not attributable to any shape).
fn run_streaming(mut cmd: Command, stall: Duration, total: Duration) -> (Finished, bool) {
    use std::io::BufRead;
    use std::sync::atomic::{AtomicU64, Ordering};
    use std::sync::{Arc, Mutex};
    let t0 = Instant::now();
    cmd.stdin(Stdio::null()).stdout(Stdio::piped()).stderr(Stdio::piped());
    let mut child = match cmd.spawn() {
        Ok(c) => c,
        Err(e) => {
            return (
                Finished {
                    code: None,
                    signal_or_abnormal: false,
                    timed_out: false,
                    spawn_error: Some(e.to_string()),
                    stdout: String::new(),
                    stderr: String::new(),
                    wall_s: 0.0,
                },
                false,
            )
        }
    };
    let so = child.stdout.take().unwrap();
    let mut se = child.stderr.take().unwrap();
    let last_ms = Arc::new(AtomicU64::new(0));
    let lines = Arc::new(Mutex::new(String::new()));
    let (l2, a2) = (lines.clone(), last_ms.clone());
    let h1 = std::thread::spawn(move || {
        let rd = std::io::BufReader::new(so);
        for line in rd.split(b'\n') {
            match line {
                Ok(b) => {
                    let mut g = l2.lock().unwrap();
                    g.push_str(&String::from_utf8_lossy(&b));
                    g.push('\n');
                    a2.store(t0.elapsed().as_millis() as u64, Ordering::Relaxed);
                }
                Err(_) => break,
            }
        }
    });
    let h2 = std::thread::spawn(move || {
        let mut b = Vec::new();
        let _ = se.read_to_end(&mut b);
        String::from_utf8_lossy(&b).to_string()
    });
    let mut timed_out = false;
    let mut stalled = false;
    let status = loop {
        match child.try_wait() {
            Ok(Some(s)) => break Some(s),
            Ok(None) => {
                let now = t0.elapsed();
                let quiet = now.as_millis() as u64 - last_ms.load(Ordering::Relaxed).min(now.as_millis() as u64);
                if now > total {
                    timed_out = true;
                } else if quiet > stall.as_millis() as u64 {
                    stalled = true;
                }
                if timed_out || stalled {
                    let _ = child.kill();
                    break child.wait().ok();
                }
                std::thread::sleep(Duration::from_millis(10));
            }
            Err(_) => break None,
        }
    };
    let _ = h1.join();
    let stderr = h2.join().unwrap_or_default();
    let stdout = lines.lock().unwrap().clone();
    let code = status.and_then(|s| s.code());
    (
        Finished {
            code,
            signal_or_abnormal: code.is_none(),
            timed_out,
            spawn_error: None,
            stdout,
            stderr,
            wall_s: t0.elapsed().as_secs_f64(),
        },
        stalled,
    )
}

fn cargo_build(dir: &Path, profile: &str) -> Finished {
    let mut cmd = Command::new("cargo");
    cmd.arg("build")
        .arg("--profile")
        .arg(profile)
        .arg("--offline")
        .arg("--color")
        .arg("never")
        .arg("--manifest-path")
        .arg(dir.join("Cargo.toml"))
        .arg("--target-dir")
        .arg(dir.join("target"))
        .env("CARGO_NET_OFFLINE", "true")
        .env("CARGO_TERM_COLOR", "never")
        .env_remove("RUSTFLAGS")
        .env_remove("CARGO_ENCODED_RUSTFLAGS")
        .env_remove("RUSTC_WRAPPER")
        .current_dir(dir);
    run_cmd(cmd, Duration::from_secs(BUILD_TIMEOUT_S))
}

fn clip(s: &str, n: usize) -> String {
    if s.len() <= n {
        return s.to_string();
    }
    let mut e = n;
    while !s.is_char_boundary(e) {
        e -= 1;
    }
    format!("{}...[{} more bytes]", &s[..e], s.len() - e)
}

struct Opts {
    lambda_path: String,
    seed: u64,
    verbose: bool,
    replay_dir: String,
}

fn replay_args(o: &Opts, id: &str) -> Vec<String> {
    let mut v = vec!["--replay-shape".to_string(), id.to_string(), o.replay_dir.clone()];
    if o.lambda_path != DEFAULT_LAMBDA {
        v.push("--lambda-path".into());
        v.push(o.lambda_path.clone());
    }
    v
}

struct Pending {
    kind: &'static str,
    shape: Shape,
    detail: Json,
}

/// `Report` keeps the first 40 distinct signatures. One broken macro arm breaks hundreds of shapes,
/// so the violations are handed over simplest shape first and round-robin over the kinds
/// (compile / behaviour / crash): the kept ones are then the smallest witnesses of every kind.
fn flush(mut pend: Vec<Pending>, o: &Opts, rep: &mut Report) {
    let complexity = |s: &Shape| (s.caps.len() + s.nargs, s.variant, s.tc, !s.ret, s.id());
    pend.sort_by(|a, b| complexity(&a.shape).cmp(&complexity(&b.shape)));
    let mut queues: Vec<std::collections::VecDeque<Pending>> = Vec::new();
    for kind in ["compile", "behaviour", "crash"] {
        let (q, rest): (Vec<Pending>, Vec<Pending>) = pend.into_iter().partition(|p| p.kind == kind);
        pend = rest;
        queues.push(q.into());
    }
    loop {
        let mut any = false;
        for q in queues.iter_mut() {
            if let Some(p) = q.pop_front() {
                any = true;
                let id = p.shape.id();
                rep.violation(format!("{}:{}", p.kind, id), p.detail, replay_args(o, &id));
            }
        }
        if !any {
            break;
        }
    }
}

/// Emit, build (dropping shapes that fail to compile, up to MAX_REBUILDS rebuilds), execute, judge.
fn pipeline(dir: &Path, all: &[Shape], o: &Opts, rep: &mut Report) {
    let mut pend = Vec::new();
    // two builds of the same generated crate: debug assertions off ("release") and on ("checked")
    for profile in ["release", "checked"] {
        let before = pend.len();
        pipeline_inner(dir, all, o, rep, &mut pend, profile);
        for p in pend[before..].iter_mut() {
            let d = std::mem::replace(&mut p.detail, Json::obj());
            p.detail = d.set("generated_crate_profile", if profile == "release" { "debug assertions off" } else { "debug assertions on" });
        }
    }
    // one witness per (kind, shape)
    let mut seen = BTreeSet::new();
    pend.retain(|p| seen.insert((p.kind, p.shape.id())));
    flush(pend, o, rep);
}

fn pipeline_inner(dir: &Path, all: &[Shape], o: &Opts, rep: &mut Report, pend: &mut Vec<Pending>, profile: &str) {
    let by_id: BTreeMap<String, Shape> = all.iter().map(|s| (s.id(), s.clone())).collect();
    rep.count("shapes_generated", all.len() as u64);
    let mut active: Vec<Shape> = all.to_vec();
    let mut compile_failed: BTreeSet<String> = BTreeSet::new();
    let mut build_walls: Vec<f64> = Vec::new();
    let mut built = false;
    for round in 0..=MAX_REBUILDS {
        if active.is_empty() {
            break;
        }
        if let Err(e) = gen::emit(dir, &active, &o.lambda_path) {
            rep.inconclusive(format!("cannot write the generated crate into {}: {}", dir.display(), e));
            return;
        }
        let b = cargo_build(dir, profile);
        build_walls.push(b.wall_s);
        if o.verbose {
            eprintln!("--- cargo build (round {}) took {:.1}s, exit {:?}\n{}", round, b.wall_s, b.code, clip(&b.stderr, 20000));
        }
        if let Some(e) = &b.spawn_error {
            rep.inconclusive(format!("cannot start cargo (toolchain missing?): {}", e));
            return;
        }
        if b.timed_out {
            rep.inconclusive(format!("cargo build exceeded {} s", BUILD_TIMEOUT_S));
            return;
        }
        if b.code == Some(0) {
            built = true;
            break;
        }
        let markers = match scan_markers(&dir.join("src")) {
            Ok(m) => m,
            Err(e) => {
                rep.inconclusive(format!("cannot read back the generated sources: {}", e));
                return;
            }
        };
        let diags = parse_diags(&b.stderr);
        let mut in_macro: BTreeMap<String, diag::Diag> = BTreeMap::new();
        let mut in_twin: BTreeMap<String, diag::Diag> = BTreeMap::new();
        let mut elsewhere: Vec<diag::Diag> = Vec::new();
        for d in diags {
            match locate(&d, dir, &markers) {
                Where::Macro(id) => {
                    in_macro.entry(id).or_insert(d);
                }
                Where::Twin(id) => {
                    in_twin.entry(id).or_insert(d);
                }
                Where::Elsewhere => elsewhere.push(d),
            }
        }
        // an error in generator-written code of a shape is a harness problem, never a violation
        for (id, d) in &in_twin {
            rep.inconclusive(format!(
                "generator error: shape {} does not compile outside the macro invocation: {} :: {}",
                id,
                d.msg,
                clip(&d.text, 1500)
            ));
        }
        if in_macro.is_empty() {
            if in_twin.is_empty() {
                let first = elsewhere.first().map(|d| clip(&d.text, 3000)).unwrap_or_else(|| clip(&b.stderr, 3000));
                rep.inconclusive(format!(
                    "build of the generated crate failed (exit {:?}) and no error points into a generated shape: {}",
                    b.code, first
                ));
            }
            rep.extra("build_wall_s", build_walls.clone());
            return;
        }
        for (id, d) in &in_macro {
            if in_twin.contains_key(id) {
                continue; // same shape also broken in the twin: the body itself is wrong (generator)
            }
            compile_failed.insert(id.clone());
            let sh = &by_id[id];
            pend.push(Pending {
                kind: "compile",
                shape: sh.clone(),
                detail: Json::obj()
                    .set("shape", id.as_str())
                    .set("description", sh.describe())
                    .set("error", d.msg.as_str())
                    .set("diagnostic", clip(&d.text, 4000))
                    .set("lambda_path", o.lambda_path.as_str())
                    .set("source", sh.source("shape_fn")),
            });
        }
        let drop: BTreeSet<&String> = in_macro.keys().chain(in_twin.keys()).collect();
        active.retain(|s| !drop.contains(&s.id()));
        if round == MAX_REBUILDS {
            rep.inconclusive(format!(
                "the generated crate still fails to build after {} rebuilds without the failing shapes; {} shapes were not executed",
                MAX_REBUILDS,
                active.len()
            ));
        }
    }
    rep.extra(&format!("build_wall_s_{}", profile), build_walls.clone());
    rep.extra(&format!("builds_{}", profile), build_walls.len());
    if !compile_failed.is_empty() {
        rep.extra("compile_failed_shapes", compile_failed.iter().cloned().collect::<Vec<String>>());
    }
    if !built {
        return;
    }
    rep.count("shapes_compiled", active.len() as u64);

    // ---- execution
    let bin = dir.join("target").join(profile).join("lambda_shapes");
    let mut start = 0usize;
    let mut done: BTreeMap<String, Result<(), String>> = BTreeMap::new();
    let mut restarts = 0usize;
    let mut calls_total = 0u64;
    let t_run = Instant::now();
    loop {
        let mut cmd = Command::new(&bin);
        cmd.arg("--seed").arg(o.seed.to_string()).arg("--start").arg(start.to_string());
        if o.verbose {
            cmd.arg("--verbose");
        }
        let (r, stalled) = run_streaming(cmd, Duration::from_secs(SHAPE_TIMEOUT_S), Duration::from_secs(RUN_TIMEOUT_S));
        if let Some(e) = &r.spawn_error {
            rep.inconclusive(format!("cannot start the generated binary {}: {}", bin.display(), e));
            return;
        }
        if o.verbose {
            eprintln!("--- generated binary (from shape index {}) exit {:?}\n{}", start, r.code, clip(&r.stdout, 200000));
        }
        let mut last_begin: Option<(usize, String)> = None;
        let mut summary = false;
        for line in r.stdout.lines() {
            if let Some(rest) = line.strip_prefix("BEGIN ") {
                let mut it = rest.splitn(2, ' ');
                let idx = it.next().and_then(|x| x.parse::<usize>().ok());
                let id = it.next().unwrap_or("").to_string();
                if let Some(idx) = idx {
                    last_begin = Some((idx, id));
                }
            } else if let Some(rest) = line.strip_prefix("SHAPE ") {
                let mut it = rest.splitn(3, ' ');
                let id = it.next().unwrap_or("").to_string();
                let verdict = it.next().unwrap_or("");
                let reason = it.next().unwrap_or("").to_string();
                if verdict == "OK" {
                    done.insert(id, Ok(()));
                } else {
                    done.insert(id, Err(reason));
                }
                last_begin = None;
            } else if let Some(rest) = line.strip_prefix("SUMMARY ") {
                summary = true;
                for kv in rest.split(' ') {
                    if let Some(v) = kv.strip_prefix("calls=") {
                        calls_total += v.parse::<u64>().unwrap_or(0);
                    }
                }
            }
        }
        if summary && (r.code == Some(0) || r.code == Some(1)) && !r.timed_out && !stalled {
            break;
        }
        // crash or timeout
        if r.timed_out {
            rep.inconclusive(format!(
                "the generated binary did not finish within {} s in total (no single shape stalled); {} shapes had a verdict",
                RUN_TIMEOUT_S,
                done.len()
            ));
            break;
        }
        let how = if stalled {
            format!("no output for {} s while this shape was running", SHAPE_TIMEOUT_S)
        } else if r.signal_or_abnormal {
            "killed by a signal (stack overflow / abort)".to_string()
        } else {
            format!("exit code {:?} without a summary", r.code)
        };
        match last_begin {
            Some((idx, id)) if by_id.contains_key(&id) => {
                let sh = &by_id[&id];
                pend.push(Pending {
                    kind: "crash",
                    shape: sh.clone(),
                    detail: Json::obj()
                        .set("shape", id.as_str())
                        .set("description", sh.describe())
                        .set("what", format!("the generated binary died while running this shape: {}", how))
                        .set("stderr_tail", clip(&r.stderr, 2000))
                        .set("lambda_path", o.lambda_path.as_str())
                        .set("source", sh.source("shape_fn")),
                });
                done.insert(id, Err(format!("crash: {}", how)));
                start = idx + 1;
                restarts += 1;
                if restarts > MAX_CRASH_RESTARTS {
                    rep.inconclusive(format!("more than {} crashes of the generated binary; stopped restarting", MAX_CRASH_RESTARTS));
                    break;
                }
                if start >= active.len() {
                    break;
                }
            }
            _ => {
                rep.inconclusive(format!(
                    "the generated binary failed ({}) and the output does not identify a shape; stderr: {}",
                    how,
                    clip(&r.stderr, 1500)
                ));
                break;
            }
        }
    }
    rep.extra(&format!("run_wall_s_{}", profile), t_run.elapsed().as_secs_f64());

    // ---- judge
    let mut executed = 0u64;
    for sh in &active {
        let id = sh.id();
        let res = match done.get(&id) {
            Some(r) => r,
            None => continue,
        };
        executed += 1;
        rep.count("evaluations", INPUTS_PER_SHAPE);
        rep.count("comparisons", INPUTS_PER_SHAPE);
        rep.see_str("capture_patterns", &sh.pattern());
        rep.see_str("arg_counts", &sh.nargs.to_string());
        rep.see_str("call_syntaxes", if sh.tc { "trailing comma" } else { "no trailing comma" });
        rep.see_str("ret_kinds", if sh.ret { "return type" } else { "no return type" });
        rep.see_str("body_variants", sh.variant.name());
        rep.see_str("generated_crate_profiles", profile);
        rep.see_str("grid_cells", &format!("{}/{}/{}/{}", sh.pattern(), sh.nargs, sh.ret, sh.tc));
        if sh.nontrivial() {
            rep.see("nontrivial", hash_str(&id));
        }
        if let Err(reason) = res {
            if reason.starts_with("crash: ") {
                continue; // already reported
            }
            let kind = if reason.contains(" panic: ") { "crash" } else { "behaviour" };
            pend.push(Pending {
                kind,
                shape: sh.clone(),
                detail: Json::obj()
                    .set("shape", id.as_str())
                    .set("description", sh.describe())
                    .set("difference", reason.as_str())
                    .set("seed", o.seed)
                    .set("lambda_path", o.lambda_path.as_str())
                    .set("source", sh.source("shape_fn")),
            });
        }
    }
    rep.count("shapes_executed", executed);
    rep.count("recursive_calls_traced", calls_total);
    if executed < active.len() as u64 && rep.inconclusive.is_empty() {
        rep.inconclusive(format!("{} compiled shapes produced no verdict line", active.len() as u64 - executed));
    }
}

fn main() {
    let eng = Engine::start("lambdagen");
    let raw: Vec<String> = std::env::args().skip(1).collect();
    let mut rep = Report::new();

    let variants: Vec<Variant> = match eng.args.opt("variants") {
        None => ALL_VARIANTS.to_vec(),
        Some(s) => {
            let mut v = vec![];
            for part in s.split(',') {
                match Variant::parse(part.trim()) {
                    Some(x) => v.push(x),
                    None => {
                        eprintln!("unknown body variant {:?} (lin, two, types, mix, refs, names, deep)", part);
                        std::process::exit(2);
                    }
                }
            }
            v
        }
    };
    let lambda_path = eng.args.str("lambda-path", DEFAULT_LAMBDA);
    let verbose = eng.args.flag("verbose");
    let seed = eng.args.seed();

    // --replay-shape <id> <dir>   |   --case <id> [--dir <dir>]
    let mut replay: Option<(String, String)> = None;
    if let Some(p) = raw.iter().position(|a| a == "--replay-shape") {
        match (raw.get(p + 1), raw.get(p + 2)) {
            (Some(id), Some(dir)) if !id.starts_with("--") && !dir.starts_with("--") => {
                replay = Some((id.clone(), dir.clone()));
            }
            _ => {
                eprintln!("usage: lambdagen --replay-shape <shape id> <dir>");
                std::process::exit(2);
            }
        }
    } else if let Some(id) = eng.args.opt("case") {
        replay = Some((id, eng.args.str("dir", "/verif/harness/gen/lambda_replay")));
    }

    if let Some((id, dir)) = replay {
        let o = Opts { lambda_path, seed, verbose: true, replay_dir: dir.clone() };
        match Shape::parse_id(&id) {
            None => rep.inconclusive(format!("not a shape id: {:?} (expected e.g. c=RM_a=3_ret_tc_b=lin)", id)),
            Some(sh) => {
                eprintln!("=== shape {}\n=== {}\n{}", id, sh.describe(), sh.source("shape_0000"));
                pipeline(Path::new(&dir), &[sh], &o, &mut rep);
            }
        }
        rep.extra("replay_shape", id);
        eng.finish(rep);
    }

    if let Some(dir) = eng.args.opt("run") {
        let dirp = PathBuf::from(&dir);
        let o = Opts {
            lambda_path,
            seed,
            verbose,
            replay_dir: format!("{}_replay", dir.trim_end_matches('/')),
        };
        let shapes = gen::all_shapes(&variants);
        pipeline(&dirp, &shapes, &o, &mut rep);
        // exhaustive = every one of the 496 grid cells was compiled and executed in this run
        let grid_complete = rep.set_len("grid_cells") == 496;
        rep.extra("exhaustive", grid_complete);
        rep.extra(
            "exhaustive_note",
            "`exhaustive` is true iff all 496 grid cells were compiled and executed in this run. The generator enumerates the grid of macro shapes completely: 31 capture patterns (every sequence of 0..=4 captures over {&T, &mut T}) x 1..=4 arguments x {return type, none} x {rec!(a, b), rec!(a, b,)} = 496 shapes, for each body variant (types: 480, needs a capture); bodies and the 6 inputs per shape are samples, not exhaustive",
        );
        rep.extra("variants", variants.iter().map(|v| v.name().to_string()).collect::<Vec<String>>());
        rep.extra("lambda_path", o.lambda_path.as_str());
        rep.extra("tier", eng.args.str("tier", "quick"));
        rep.extra("nontrivial_rule", ">= 2 captures or >= 3 arguments or trailing-comma call syntax (shapes the pinned tests never expand)");
        // two small shapes as samples
        for id in ["c=R_a=1_ret_nc_b=lin", "c=MR_a=2_unit_tc_b=lin"] {
            if let Some(sh) = Shape::parse_id(id) {
                rep.sample(Json::obj().set("shape", id).set("description", sh.describe()).set("source", sh.source("shape_fn")));
            }
        }
        eng.finish(rep);
    }

    if let Some(dir) = eng.args.opt("emit") {
        let shapes = gen::all_shapes(&variants);
        match gen::emit(Path::new(&dir), &shapes, &lambda_path) {
            Ok(em) => {
                println!("emitted {} shapes in {} modules into {}", shapes.len(), em.modules.len(), dir);
                std::process::exit(0);
            }
            Err(e) => {
                eprintln!("cannot write {}: {}", dir, e);
                std::process::exit(2);
            }
        }
    }

    eprintln!("usage: lambdagen --emit <dir> | --run <dir> [--out f] [--tier t] [--seed n] | --replay-shape <id> <dir>   [--lambda-path p] [--variants lin,two,types,mix] [--verbose]");
    std::process::exit(2);
}
