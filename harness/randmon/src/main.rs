//! randmon - runtime monitor for the random generator (C14).
//!   --mode ranges    every range form of every integer type under adversarial raw outputs fed through the public
//!                    `Randomable::gen_from_u64` (membership for every raw value tried, reachability of small ranges)
//!   --mode floats    half-open float ranges under raw outputs around 2^53..2^64 (start <= x < end)
//!   --mode streams   determinism (seeds, copies), shuffle (multiset kept, permutation census over seeds, chi-square),
//!                    serial structure of small-range draws (no short period, serial-pair chi-square)
//! replay: --mode <m> --case <opaque>

use common::{catch, lib, mix, Engine, Json, Report, Rng as HRng, WorkQueue};
use rlib_rand::randomable::Randomable;
use rlib_rand::{Rand, Rng};

fn raws_for_len(len: u128, rng: &mut HRng, extra_random: usize) -> Vec<u64> {
    // adversarial raw generator outputs for a range of `len` values
    let mut v: Vec<u64> = Vec::new();
    let l64 = if len > u64::MAX as u128 { u64::MAX } else { len as u64 };
    for k in 0..=l64.saturating_mul(2).min(600) {
        v.push(k);
    }
    // multiples of len near 2^64 and the top of the u64 range
    if l64 > 0 {
        let top = u64::MAX / l64 * l64;
        for d in 0..3u64 {
            v.push(top.wrapping_sub(d));
            v.push(top.wrapping_add(d));
            v.push((top / 2 / l64 * l64).wrapping_add(d));
        }
    }
    for k in 0..=64u64 {
        v.push(u64::MAX - k);
    }
    for k in 0..4u64 {
        v.push((1u64 << 53) + k);
        v.push((1u64 << 53) - k);
        v.push((1u64 << 63) + k);
        v.push((1u64 << 63) - 1 - k);
        v.push((1u64 << 32) + k);
        v.push((1u64 << 32) - 1 - k);
    }
    for _ in 0..extra_random {
        v.push(rng.next_u64());
    }
    v
}

struct Cx<'a> {
    rep: &'a mut Report,
}

// ------------------------------------------------------------------------------------------------
// integer ranges

macro_rules! int_type {
    ($fname:ident, $t:ty, $name:expr) => {
        /// checks one (start, end) pair in all range forms; returns nothing, reports into cx
        fn $fname(cx: &mut Cx, start: $t, end: $t, rng: &mut HRng, extra_random: usize, verbose: bool) {
            let tn = $name;
            let (s, e) = (start as i128, end as i128);
            let min = <$t>::MIN as i128;
            let max = <$t>::MAX as i128;
            let replay = |form: &str, raw: u64| vec!["--mode".to_string(), "ranges".to_string(), "--case".to_string(), format!("{}:{}:{}:{}:{}", tn, form, s, e, raw)];
            // ---- half-open start..end
            if s < e {
                let len = (e - s) as u128;
                let raws = raws_for_len(len, rng, extra_random);
                let mut seen: Vec<bool> = if len <= 256 { vec![false; len as usize] } else { vec![] };
                for &raw in &raws {
                    let x = lib!((start..end).gen_from_u64(raw)) as i128;
                    cx.rep.inc("draws_checked");
                    if !(s <= x && x < e) {
                        cx.rep.violation(
                            format!("int_range_outside:{}:range", tn),
                            Json::obj().set("what", "a draw from start..end lies outside the range").set("type", tn).set("start", s).set("end", e).set("raw", raw).set("got", x),
                            replay("range", raw),
                        );
                        break;
                    }
                    if !seen.is_empty() {
                        seen[(x - s) as usize] = true;
                    }
                }
                if !seen.is_empty() {
                    cx.rep.inc("reachability_checks");
                    if let Some(miss) = seen.iter().position(|b| !b) {
                        cx.rep.violation(
                            format!("int_range_unreachable:{}:range", tn),
                            Json::obj().set("what", "a value of a small range is never produced although all raw outputs 0..2*len were tried").set("type", tn).set("start", s).set("end", e).set("missing", s + miss as i128),
                            replay("range", 0),
                        );
                    }
                }
            }
            // ---- inclusive start..=end
            if s <= e {
                let len = (e - s + 1) as u128;
                let raws = raws_for_len(len, rng, extra_random);
                let mut seen: Vec<bool> = if len <= 256 { vec![false; len as usize] } else { vec![] };
                for &raw in &raws {
                    let x = lib!((start..=end).gen_from_u64(raw)) as i128;
                    cx.rep.inc("draws_checked");
                    if !(s <= x && x <= e) {
                        cx.rep.violation(
                            format!("int_range_outside:{}:inclusive", tn),
                            Json::obj().set("what", "a draw from start..=end lies outside the range").set("type", tn).set("start", s).set("end", e).set("raw", raw).set("got", x),
                            replay("inclusive", raw),
                        );
                        break;
                    }
                    if !seen.is_empty() {
                        seen[(x - s) as usize] = true;
                    }
                }
                if !seen.is_empty() {
                    cx.rep.inc("reachability_checks");
                    if let Some(miss) = seen.iter().position(|b| !b) {
                        cx.rep.violation(
                            format!("int_range_unreachable:{}:inclusive", tn),
                            Json::obj().set("what", "a value of a small inclusive range is never produced").set("type", tn).set("start", s).set("end", e).set("missing", s + miss as i128),
                            replay("inclusive", 0),
                        );
                    }
                }
            }
            // ---- ..end and ..=end (the library draws from 0; any value below `end` is inside the range)
            if e > 0 {
                let raws = raws_for_len(e as u128, rng, extra_random);
                let mut seen: Vec<bool> = if e <= 256 { vec![false; e as usize] } else { vec![] };
                for &raw in &raws {
                    let x = lib!((..end).gen_from_u64(raw)) as i128;
                    cx.rep.inc("draws_checked");
                    if !(min <= x && x < e) {
                        cx.rep.violation(
                            format!("int_range_outside:{}:to", tn),
                            Json::obj().set("what", "a draw from ..end is not below end").set("type", tn).set("end", e).set("raw", raw).set("got", x),
                            replay("to", raw),
                        );
                        break;
                    }
                    if !seen.is_empty() && x >= 0 {
                        seen[x as usize] = true;
                    }
                }
                if !seen.is_empty() {
                    cx.rep.inc("reachability_checks");
                    if let Some(miss) = seen.iter().position(|b| !b) {
                        cx.rep.violation(
                            format!("int_range_unreachable:{}:to", tn),
                            Json::obj().set("what", "a value of 0..end is never produced by ..end").set("type", tn).set("end", e).set("missing", miss),
                            replay("to", 0),
                        );
                    }
                }
            }
            if e >= 0 {
                let raws = raws_for_len((e + 1) as u128, rng, extra_random);
                for &raw in &raws {
                    let x = lib!((..=end).gen_from_u64(raw)) as i128;
                    cx.rep.inc("draws_checked");
                    if !(min <= x && x <= e) {
                        cx.rep.violation(
                            format!("int_range_outside:{}:to_inclusive", tn),
                            Json::obj().set("what", "a draw from ..=end is above end").set("type", tn).set("end", e).set("raw", raw).set("got", x),
                            replay("to_inclusive", raw),
                        );
                        break;
                    }
                }
            }
            // ---- full range: every value of the type is fine; the draw must be a function of raw (checked by type), and
            // for 8-bit types all values must be reachable
            if s == min && e == max {
                let mut seen = vec![false; 256];
                for raw in 0..512u64 {
                    let x: $t = lib!((..).gen_from_u64(raw));
                    cx.rep.inc("draws_checked");
                    if (max - min) < 256 {
                        seen[(x as i128 - min) as usize] = true;
                    }
                }
                if (max - min) < 256 && seen.iter().any(|b| !b) {
                    cx.rep.violation(format!("int_range_unreachable:{}:full", tn), Json::obj().set("what", "a value of the full 8-bit range is never produced").set("type", tn), replay("full", 0));
                }
            }
            if verbose {
                eprintln!("  {} start={} end={} checked", tn, s, e);
            }
        }
    };
}

int_type!(check_i8, i8, "i8");
int_type!(check_u8, u8, "u8");
int_type!(check_i16, i16, "i16");
int_type!(check_u16, u16, "u16");
int_type!(check_i32, i32, "i32");
int_type!(check_u32, u32, "u32");
int_type!(check_i64, i64, "i64");
int_type!(check_u64, u64, "u64");
int_type!(check_isize, isize, "isize");
int_type!(check_usize, usize, "usize");

macro_rules! wide_bounds {
    ($t:ty) => {{
        // boundary ranges: lengths 1, 2^k, MAX, full width, start at MIN, end at MAX
        let mut v: Vec<($t, $t)> = Vec::new();
        let (mn, mx) = (<$t>::MIN, <$t>::MAX);
        let bits = <$t>::BITS;
        let anchors: Vec<$t> = vec![mn, mn + 1, (mn / 2), 0 as $t, 1 as $t, (mx / 2), mx - 1, mx];
        for &a in &anchors {
            v.push((a, a)); // inclusive length 1
            for k in 0..bits {
                let len = (1u128 << k) as i128;
                let e = a as i128 + len;
                if e <= mx as i128 {
                    v.push((a, e as $t));
                }
                let e2 = a as i128 + len - 1;
                if e2 <= mx as i128 && e2 >= a as i128 {
                    v.push((a, e2 as $t));
                }
                let e3 = a as i128 + len + 1;
                if e3 <= mx as i128 {
                    v.push((a, e3 as $t));
                }
                let s = mx as i128 - len;
                if s >= mn as i128 {
                    v.push((s as $t, mx));
                }
            }
        }
        v.push((mn, mx));
        v.push((mn, mx - 1));
        v.push((mn + 1, mx));
        v.push((0 as $t, mx));
        v
    }};
}

fn run_ranges(eng_threads: usize, thorough: bool, seed: u64, report: &mut Report) {
    // 8-bit types: all (start, end) pairs, sharded by start
    let q = WorkQueue::new(512);
    let extra = if thorough { 200 } else { 12 };
    let rep = common::run_sharded(eng_threads, |_s, rep| {
        let mut cx = Cx { rep };
        while let Some(i) = q.take() {
            let mut hr = HRng::new(mix(&[seed, 14, i]));
            let r = catch(|| {
                if i < 256 {
                    let s = i as u8;
                    for e in 0..=255u8 {
                        check_u8(&mut cx, s, e, &mut hr, extra, false);
                        cx.rep.inc("evaluations");
                        if s < e {
                            cx.rep.see("nontrivial", mix(&[1, s as u64, e as u64]));
                        }
                    }
                } else {
                    let s = (i - 256) as u8 as i8;
                    for e in i8::MIN..=i8::MAX {
                        check_i8(&mut cx, s, e, &mut hr, extra, false);
                        cx.rep.inc("evaluations");
                        if s < e {
                            cx.rep.see("nontrivial", mix(&[2, s as u8 as u64, e as u8 as u64]));
                        }
                    }
                }
            });
            if let Err(p) = r {
                if p.in_lib {
                    cx.rep.violation(format!("panic:ranges"), Json::obj().set("panic", p.msg.as_str()).set("at", format!("{}:{}", p.file, p.line)).set("start_index", i), vec![]);
                } else {
                    cx.rep.inconclusive(format!("harness panic at {}:{}: {}", p.file, p.line, p.msg));
                }
            }
        }
    });
    report.merge(rep);
    // wider types: boundary ranges
    let mut rep = Report::new();
    {
        let mut cx = Cx { rep: &mut rep };
        let mut hr = HRng::new(mix(&[seed, 15]));
        let extra = if thorough { 2000 } else { 100 };
        macro_rules! wide {
            ($f:ident, $t:ty, $k:expr) => {
                for (s, e) in wide_bounds!($t) {
                    let r = catch(|| $f(&mut cx, s, e, &mut hr, extra, false));
                    cx.rep.inc("evaluations");
                    cx.rep.see("nontrivial", mix(&[$k, s as u64, e as u64]));
                    if let Err(p) = r {
                        if p.in_lib {
                            cx.rep.violation(
                                format!("panic:{}", stringify!($t)),
                                Json::obj().set("what", "the library panicked on a non-empty range").set("panic", p.msg.as_str()).set("at", format!("{}:{}", p.file, p.line)).set("start", s as i128).set("end", e as i128),
                                vec![],
                            );
                        } else {
                            cx.rep.inconclusive(format!("harness panic at {}:{}: {}", p.file, p.line, p.msg));
                        }
                    }
                }
            };
        }
        wide!(check_i16, i16, 3);
        wide!(check_u16, u16, 4);
        wide!(check_i32, i32, 5);
        wide!(check_u32, u32, 6);
        wide!(check_i64, i64, 7);
        wide!(check_u64, u64, 8);
        wide!(check_isize, isize, 9);
        wide!(check_usize, usize, 10);
        // related lengths in consecutive draws on one thread: a range of L values directly followed by ranges of
        // L mod 2^32, L mod 2^16, L >> 32 and L - 2^32 values (whatever a draw leaves behind about "the last length" -
        // a cached reciprocal, a cached rejection threshold - under a key that keeps only part of L)
        let r = catch(|| {
            for &big in &[(1u64 << 32) + 6, (1 << 32) + 255, (1 << 32) + 65_536 + 17, (1 << 33) + 100, (1 << 40) + 3, (1 << 48) + 200, u64::MAX - 5, (1 << 32) + (1 << 16)] {
                for &raw in &[u64::MAX - 1, u64::MAX, 0, 1, 0x8000_0000_0000_0001, 12345678901234567] {
                    let x = lib!((0u64..big).gen_from_u64(raw));
                    cx.rep.inc("related_length_draws");
                    if x != raw % big {
                        cx.rep.violation("related_lengths:u64".to_string(), Json::obj().set("what", "draw from a wide u64 range is not start + raw mod len").set("len", big).set("raw", raw).set("got", x), vec![]);
                    }
                    for small in [big & 0xFFFF_FFFF, big & 0xFFFF, big >> 32, big.wrapping_sub(1 << 32) & 0xFF] {
                        if small == 0 {
                            continue;
                        }
                        cx.rep.inc("related_length_draws");
                        if small <= 200 {
                            let s = 10u8;
                            let y = lib!((s..s + small as u8).gen_from_u64(raw));
                            if y as u64 != s as u64 + raw % small {
                                cx.rep.violation(
                                    "related_lengths:u8".to_string(),
                                    Json::obj().set("what", "a draw from a small range directly after a draw from a range of related length is not start + raw mod len").set("previous_len", big).set("len", small).set("raw", raw).set("got", y as u64).set("want", s as u64 + raw % small),
                                    vec![],
                                );
                            }
                            let z = lib!((-100i8..(-100 + small as i64) as i8).gen_from_u64(raw));
                            if z as i64 != -100 + (raw % small) as i64 {
                                cx.rep.violation("related_lengths:i8".to_string(), Json::obj().set("previous_len", big).set("len", small).set("raw", raw).set("got", z as i64), vec![]);
                            }
                        } else {
                            let y = lib!((3u64..3 + small).gen_from_u64(raw));
                            if y != 3 + raw % small {
                                cx.rep.violation("related_lengths:u64".to_string(), Json::obj().set("previous_len", big).set("len", small).set("raw", raw).set("got", y), vec![]);
                            }
                        }
                        // and the wide one again
                        let x2 = lib!((0u64..big).gen_from_u64(raw));
                        if x2 != x {
                            cx.rep.violation("related_lengths:u64".to_string(), Json::obj().set("what", "the same draw from the wide range differs after a draw from a range of related length").set("len", big).set("raw", raw), vec![]);
                        }
                    }
                }
            }
        });
        if let Err(p) = r {
            if p.in_lib {
                cx.rep.violation("panic:related_lengths".to_string(), Json::obj().set("panic", p.msg.as_str()).set("at", format!("{}:{}", p.file, p.line)), vec![]);
            } else {
                cx.rep.inconclusive(format!("harness panic at {}:{}: {}", p.file, p.line, p.msg));
            }
        }
    }
    report.merge(rep);
}

fn replay_range(case: &str, report: &mut Report) {
    let p: Vec<&str> = case.split(':').collect();
    let (tn, s, e): (&str, i128, i128) = (p[0], p[2].parse().unwrap(), p[3].parse().unwrap());
    let mut hr = HRng::new(1);
    let mut cx = Cx { rep: report };
    match tn {
        "i8" => check_i8(&mut cx, s as i8, e as i8, &mut hr, 50, true),
        "u8" => check_u8(&mut cx, s as u8, e as u8, &mut hr, 50, true),
        "i16" => check_i16(&mut cx, s as i16, e as i16, &mut hr, 50, true),
        "u16" => check_u16(&mut cx, s as u16, e as u16, &mut hr, 50, true),
        "i32" => check_i32(&mut cx, s as i32, e as i32, &mut hr, 50, true),
        "u32" => check_u32(&mut cx, s as u32, e as u32, &mut hr, 50, true),
        "i64" => check_i64(&mut cx, s as i64, e as i64, &mut hr, 50, true),
        "u64" => check_u64(&mut cx, s as u64, e as u64, &mut hr, 50, true),
        "isize" => check_isize(&mut cx, s as isize, e as isize, &mut hr, 50, true),
        "usize" => check_usize(&mut cx, s as usize, e as usize, &mut hr, 50, true),
        _ => panic!("unknown type"),
    }
}

// ------------------------------------------------------------------------------------------------
// float ranges

fn float_raws(rng: &mut HRng, n_random: usize, deep: bool) -> Vec<u64> {
    let mut v: Vec<u64> = vec![0, 1, 2, 3];
    for j in 0..64u64 {
        v.push(j << 11);
        v.push((j << 11) + 1);
        v.push(1u64 << j);
        v.push((1u64 << j).wrapping_sub(1));
    }
    for k in 0..16u64 {
        v.push((1u64 << 53) + k);
        v.push((1u64 << 53) - k);
        v.push((1u64 << 63) + k);
    }
    let top = if deep { 65536 } else { 8192 };
    for k in 0..=top {
        v.push(u64::MAX - k);
    }
    for _ in 0..n_random {
        v.push(rng.next_u64());
        v.push(u64::MAX - (rng.next_u64() >> 40)); // near the top
    }
    v
}

fn run_floats(thorough: bool, seed: u64, report: &mut Report, only: Option<(f64, f64, u64)>) {
    let mut hr = HRng::new(mix(&[seed, 16]));
    let ranges: Vec<(f64, f64, &str)> = vec![
        (0.0, 1.0, "unit"),
        (10.0, 20.0, "10..20"),
        (-1.0, 1.0, "-1..1"),
        (-20.0, -10.0, "negative"),
        (1.0, 1.0 + f64::EPSILON, "one ulp wide"),
        (1.0, 1.0 + 2.0 * f64::EPSILON, "two ulps wide"),
        (0.0, f64::MIN_POSITIVE, "0..min normal"),
        (0.0, 5e-324, "0..min subnormal"),
        (-5e-324, 5e-324, "subnormal straddle"),
        (-1e308, 1e308, "huge symmetric"),
        (-f64::MAX, f64::MAX, "whole finite line"),
        (0.0, f64::MAX, "0..MAX"),
        (1e300, 1.0000001e300, "huge narrow"),
        (-3.5, 1e9, "mixed"),
        (123456.789, 123456.79, "narrow"),
        (1e-300, 1e-299, "tiny"),
    ];
    let mut all: Vec<(f64, f64, String)> = ranges.iter().map(|r| (r.0, r.1, r.2.to_string())).collect();
    // ranges of one, two and three ulps at many magnitudes, with both parities of the last mantissa bit of the end point and
    // across binade edges (a fallback value such as a midpoint is a rounding tie there and may land on the excluded end)
    for &base in &[1.0f64, -1.0, 2.0, 0.75, 1e-3, 123456.789, -6.02e23, 1e300, f64::MIN_POSITIVE, 4.0 - 4.0 * f64::EPSILON, 5e-324 * 7.0] {
        for off in 0..6u64 {
            for width in 1..=3u64 {
                let a = f64::from_bits(base.to_bits().wrapping_add(off));
                let b = f64::from_bits(base.to_bits().wrapping_add(off + width));
                let (lo, hi) = if a < b { (a, b) } else { (b, a) };
                if lo.is_finite() && hi.is_finite() && lo < hi {
                    all.push((lo, hi, format!("{} ulp wide", width)));
                }
            }
        }
    }
    for _ in 0..(if thorough { 2000 } else { 150 }) {
        // random finite ranges, start < end
        let a = f64::from_bits(hr.next_u64());
        let b = f64::from_bits(hr.next_u64());
        if a.is_finite() && b.is_finite() && a != b {
            all.push((a.min(b), a.max(b), "random bit patterns".to_string()));
        }
        let c = hr.f64_range(-1000.0, 1000.0);
        let w = 10f64.powf(hr.f64_range(-12.0, 3.0));
        all.push((c, c + w, "random moderate".to_string()));
    }
    let raws = float_raws(&mut hr, if thorough { 200_000 } else { 5_000 }, thorough);
    for (s, e, name) in all {
        if let Some((os, oe, _)) = only {
            if os.to_bits() != s.to_bits() || oe.to_bits() != e.to_bits() {
                continue;
            }
        }
        report.inc("evaluations");
        report.see("nontrivial", mix(&[s.to_bits(), e.to_bits()]));
        report.see_str("float_range_families", &name);
        let r = catch(|| {
            let mut bad: Option<(u64, f64)> = None;
            let mut n = 0u64;
            let mut lo_seen = f64::INFINITY;
            let mut hi_seen = f64::NEG_INFINITY;
            for &raw in &raws {
                if let Some((_, _, oraw)) = only {
                    if oraw != raw {
                        continue;
                    }
                }
                let x = lib!((s..e).gen_from_u64(raw));
                n += 1;
                if !(s <= x && x < e) {
                    if bad.is_none() {
                        bad = Some((raw, x));
                    }
                } else {
                    lo_seen = lo_seen.min(x);
                    hi_seen = hi_seen.max(x);
                }
            }
            (bad, n, lo_seen, hi_seen)
        });
        match r {
            Ok((bad, n, _lo, _hi)) => {
                report.count("draws_checked", n);
                if let Some((raw, x)) = bad {
                    let what = if x == e { "reaches_end" } else if x.is_nan() { "nan" } else { "outside" };
                    report.violation(
                        format!("float_range:{}", what),
                        Json::obj()
                            .set("what", "a draw from the half-open float range start..end violates start <= x < end")
                            .set("start", s)
                            .set("end", e)
                            .set("family", name.as_str())
                            .set("raw", raw)
                            .set("raw_distance_below_2^64", (u64::MAX - raw) as u128 + 1)
                            .set("got", x)
                            .set("got_bits", format!("{:#018x}", x.to_bits())),
                        vec!["--mode".into(), "floats".into(), "--case".into(), format!("{}:{}:{}", s.to_bits(), e.to_bits(), raw)],
                    );
                }
            }
            Err(p) => {
                if p.in_lib {
                    report.violation("panic:float_range", Json::obj().set("panic", p.msg.as_str()).set("start", s).set("end", e), vec![]);
                } else {
                    report.inconclusive(format!("harness panic at {}:{}: {}", p.file, p.line, p.msg));
                }
            }
        }
    }
    // Rand::next on a float range goes through the same mapping
    let mut g = Rng::from_seed(seed);
    for _ in 0..100_000 {
        let x: f64 = lib!(g.next(0.25..0.75));
        report.inc("draws_checked");
        if !(0.25..0.75).contains(&x) {
            report.violation("float_range:next_outside", Json::obj().set("got", x), vec![]);
            break;
        }
    }
}

// ------------------------------------------------------------------------------------------------
// streams: determinism, shuffle, serial structure

/// 1 - 1e-12 quantile of chi-square with df degrees of freedom (Wilson-Hilferty), generous
fn chi2_bound(df: f64) -> f64 {
    let z = 7.2;
    let t = 1.0 - 2.0 / (9.0 * df) + z * (2.0 / (9.0 * df)).sqrt();
    df * t * t * t + 10.0
}

fn factorial(n: usize) -> usize {
    (1..=n).product()
}

fn perm_index(p: &[u8]) -> usize {
    // Lehmer code
    let n = p.len();
    let mut idx = 0;
    for i in 0..n {
        let smaller = p[i + 1..].iter().filter(|&&x| x < p[i]).count();
        idx = idx * (n - i) + smaller;
    }
    idx
}

fn seed_family(kind: usize, i: u64, base: u64) -> u64 {
    match kind {
        0 => i,                                                 // sequential from 0
        1 => base.wrapping_add(i),                              // sequential from an offset
        2 => i.wrapping_mul(0x9E37_79B9_7F4A_7C15),             // scrambled
        3 => (base >> 3).wrapping_add(i * 1000 + i % 7),        // timestamp-like (from_time seeds differ in their low bits)
        _ => i.wrapping_mul(1_000_003).wrapping_add(base >> 7), // strided
    }
}

const FAMILY_NAMES: [&str; 5] = ["sequential", "offset", "scrambled", "timestamp_like", "strided"];

/// element types of different sizes for the shuffle census (an implementation may treat wide, narrow, zero-cost-to-move
/// and heap-owning elements differently)
const ELEM_TYPES: [&str; 5] = ["u8", "u64", "[u64; 16]", "[u8; 65]", "String"];

fn run_shuffle_census(n: usize, kind: usize, seeds: u64, base: u64, report: &mut Report) {
    run_shuffle_census_t::<u8>(n, kind, seeds, base, 0, report, |i| i, |e| *e)
}

fn run_shuffle_census_elem(elem: usize, n: usize, kind: usize, seeds: u64, base: u64, report: &mut Report) {
    match elem {
        0 => run_shuffle_census_t::<u8>(n, kind, seeds, base, 0, report, |i| i, |e| *e),
        1 => run_shuffle_census_t::<u64>(n, kind, seeds, base, 1, report, |i| i as u64 * 0x0101_0101_0101_0101, |e| *e as u8),
        2 => run_shuffle_census_t::<[u64; 16]>(n, kind, seeds, base, 2, report, |i| [i as u64; 16], |e| e[15] as u8),
        3 => run_shuffle_census_t::<[u8; 65]>(n, kind, seeds, base, 3, report, |i| [i; 65], |e| e[64]),
        _ => run_shuffle_census_t::<String>(n, kind, seeds, base, 4, report, |i| format!("element number {}", i), |e| e.rsplit(' ').next().unwrap().parse().unwrap()),
    }
}

fn run_shuffle_census_t<E: Clone>(n: usize, kind: usize, seeds: u64, base: u64, elem: usize, report: &mut Report, make: fn(u8) -> E, key: fn(&E) -> u8) {
    let nf = factorial(n);
    let mut counts = vec![0u64; nf];
    report.inc("evaluations");
    report.see("nontrivial", mix(&[17, n as u64, kind as u64, base]));
    let r = catch(|| {
        for i in 0..seeds {
            let mut g = Rng::from_seed(seed_family(kind, i, base));
            if i % 64 == 0 {
                // the two lengths for which there is nothing to rearrange
                let mut none: Vec<E> = Vec::new();
                lib!(g.shuffle(&mut none));
                let mut one: Vec<E> = vec![make(0)];
                lib!(g.shuffle(&mut one[..]));
                if !none.is_empty() || one.len() != 1 || key(&one[0]) != 0 {
                    return Err("a shuffle of an empty or one-element slice changed the slice".to_string());
                }
            }
            let mut ve: Vec<E> = (0..n as u8).map(make).collect();
            lib!(g.shuffle(&mut ve));
            if base % 2 == 1 {
                // the same slice shuffled twice with the same generator: the composition of two independent uniform
                // rearrangements is uniform again (it is not if the second shuffle replays the draws of the first)
                lib!(g.shuffle(&mut ve));
            }
            let v: Vec<u8> = ve.iter().map(key).collect();
            let mut sorted = v.clone();
            sorted.sort();
            if sorted != (0..n as u8).collect::<Vec<u8>>() {
                return Err(format!("{:?}", v));
            }
            counts[perm_index(&v)] += 1;
        }
        Ok(())
    });
    let replay = vec!["--mode".into(), "streams".into(), "--case".into(), format!("shuffle:{}:{}:{}:{}:{}", n, kind, seeds, base, elem)];
    report.see_str("shuffle_element_types", ELEM_TYPES[elem]);
    match r {
        Err(p) => {
            if p.in_lib {
                report.violation("panic:shuffle", Json::obj().set("panic", p.msg.as_str()).set("n", n), replay);
            } else {
                report.inconclusive(format!("harness panic at {}:{}: {}", p.file, p.line, p.msg));
            }
        }
        Ok(Err(v)) => report.violation("shuffle:not_a_rearrangement", Json::obj().set("what", "shuffle did not return a rearrangement of the same elements").set("got", v).set("n", n), replay),
        Ok(Ok(())) => {
            report.count("shuffles", seeds);
            let reached = counts.iter().filter(|&&c| c > 0).count();
            let expected = seeds as f64 / nf as f64;
            let chi2: f64 = counts.iter().map(|&c| (c as f64 - expected).powi(2) / expected).sum();
            let bound = chi2_bound((nf - 1) as f64);
            report.max(&format!("shuffle_chi2_over_bound_x1000_n{}", n), (chi2 / bound * 1000.0) as i64);
            report.count("permutations_reached", reached as u64);
            report.count("permutations_possible", nf as u64);
            if reached < nf {
                report.violation(
                    format!("shuffle:unreachable_permutations:n{}", n),
                    Json::obj()
                        .set("what", "some rearrangements of a short slice are never produced by any of the seeds tried")
                        .set("n", n)
                        .set("element_type", ELEM_TYPES[elem])
                        .set("seed_family", FAMILY_NAMES[kind])
                        .set("seeds", seeds)
                        .set("reached", reached)
                        .set("of", nf),
                    replay,
                );
            } else if chi2 > bound {
                report.violation(
                    format!("shuffle:unfair:n{}", n),
                    Json::obj()
                        .set("what", "the frequencies of the rearrangements over the seeds are far from equal (chi-square above the 1-1e-12 quantile)")
                        .set("n", n)
                        .set("element_type", ELEM_TYPES[elem])
                        .set("seed_family", FAMILY_NAMES[kind])
                        .set("seeds", seeds)
                        .set("chi2", chi2)
                        .set("bound", bound)
                        .set("df", nf - 1),
                    replay,
                );
            }
            report.sample(Json::obj().set("shuffle_census_n", n).set("seed_family", FAMILY_NAMES[kind]).set("seeds", seeds).set("permutations_reached", reached).set("of", nf).set("chi2", (chi2 * 10.0).round() / 10.0).set("bound", bound.round()));
        }
    }
}

/// the ways of asking for a value of `len` possibilities through the generator (consecutive draws of ONE generator)
const SERIAL_FORMS: [&str; 10] = [
    "0..len (u64)",
    "0..=len-1 (u32)",
    "..len (u16)",
    "..=len-1 (i64)",
    "-k..len-k (i32)",
    ".. (u8, all 256 values)",
    "u8::MIN..=u8::MAX",
    "i8::MIN..=i8::MAX",
    "low byte of a full-range u64 draw (..)",
    "low bit of a full-range i64 draw (..)",
];

fn serial_form_len(form: usize, len: u64) -> u64 {
    match form {
        5 | 6 | 7 | 8 => 256,
        9 => 2,
        2 => len.min(60_000),
        _ => len,
    }
}

fn run_serial(len: u64, seed0: u64, draws: usize, report: &mut Report) {
    run_serial_form(0, len, seed0, draws, report)
}

fn run_serial_form(form: usize, len: u64, seed0: u64, draws: usize, report: &mut Report) {
    let len = serial_form_len(form, len);
    report.inc("evaluations");
    report.see("nontrivial", mix(&[18, len, seed0, form as u64]));
    report.see_str("serial_range_forms", SERIAL_FORMS[form]);
    let replay = vec!["--mode".into(), "streams".into(), "--case".into(), format!("serial:{}:{}:{}:{}", len, seed0, draws, form)];
    let r = catch(|| {
        let mut g = Rng::from_seed(seed0);
        let k = (len / 3) as i32;
        let v: Vec<u64> = (0..draws)
            .map(|_| match form {
                0 => lib!(g.next(0..len)),
                1 => lib!(g.next(0..=(len - 1) as u32)) as u64,
                2 => lib!(g.next(..len as u16)) as u64,
                3 => lib!(g.next(..=(len - 1) as i64)) as u64,
                4 => (lib!(g.next(-k..(len as i32 - k))) + k) as u64,
                5 => lib!(g.next::<u8, _>(..)) as u64,
                6 => lib!(g.next(u8::MIN..=u8::MAX)) as u64,
                7 => (lib!(g.next(i8::MIN..=i8::MAX)) as i64 + 128) as u64,
                8 => lib!(g.next::<u64, _>(..)) & 0xff,
                _ => (lib!(g.next::<i64, _>(..)) & 1) as u64,
            })
            .collect();
        v
    });
    let v = match r {
        Ok(v) => v,
        Err(p) => {
            if p.in_lib {
                report.violation("panic:next", Json::obj().set("panic", p.msg.as_str()), replay);
            } else {
                report.inconclusive(format!("harness panic at {}:{}: {}", p.file, p.line, p.msg));
            }
            return;
        }
    };
    report.count("serial_draws", draws as u64);
    if v.iter().any(|&x| x >= len) {
        report.violation("serial:outside", Json::obj().set("len", len), replay.clone());
        return;
    }
    // exact period <= 2048 over the whole window
    for p in 1..=2048usize {
        if p * 2 > draws {
            break;
        }
        if (p..draws).all(|i| v[i] == v[i - p]) {
            report.violation(
                format!("serial:periodic:len{}", len),
                Json::obj()
                    .set("what", "consecutive draws from a small range repeat with a short exact period")
                    .set("range_len", len)
                    .set("range_form", SERIAL_FORMS[form])
                    .set("seed", seed0)
                    .set("period", p)
                    .set("first_draws", Json::from(v.iter().take(24).cloned().collect::<Vec<u64>>())),
                replay,
            );
            return;
        }
    }
    // serial pairs (non-overlapping)
    if len <= 16 {
        let k = (len * len) as usize;
        let mut c = vec![0u64; k];
        let pairs = draws / 2;
        for i in 0..pairs {
            c[(v[2 * i] * len + v[2 * i + 1]) as usize] += 1;
        }
        let expected = pairs as f64 / k as f64;
        let chi2: f64 = c.iter().map(|&x| (x as f64 - expected).powi(2) / expected).sum();
        let bound = chi2_bound((k - 1) as f64);
        report.max(&format!("serial_pair_chi2_over_bound_x1000_len{}", len), (chi2 / bound * 1000.0) as i64);
        if chi2 > bound {
            report.violation(
                format!("serial:pairs_unfair:len{}", len),
                Json::obj().set("what", "pairs of consecutive small-range draws are far from uniform").set("range_len", len).set("seed", seed0).set("chi2", chi2).set("bound", bound),
                replay,
            );
        }
    } else {
        // single-value frequencies
        let k = len as usize;
        let mut c = vec![0u64; k];
        for &x in &v {
            c[x as usize] += 1;
        }
        let expected = draws as f64 / k as f64;
        let chi2: f64 = c.iter().map(|&x| (x as f64 - expected).powi(2) / expected).sum();
        let bound = chi2_bound((k - 1) as f64);
        if chi2 > bound {
            report.violation(format!("serial:values_unfair:len{}", len), Json::obj().set("range_len", len).set("seed", seed0).set("chi2", chi2).set("bound", bound), replay);
        }
    }
}

/// Seeds that drive the generator's internal state through degenerate values (0, 1, all ones, single bits, ...) within its
/// first steps. They are computed by inverting the step state' = A*state + C (mod 2^64) with the constants of the crate's
/// `Rng` alias; the model (state = seed, output = state ^ (state >> 32)) is first compared with the real generator on
/// random seeds, and the family is skipped (recorded as not applicable) if it does not describe it.
fn special_state_seeds(report: &mut Report) -> Vec<u64> {
    const A: u64 = 6364136223846793005;
    const C: u64 = 1442695040888963407;
    let mut hr = HRng::new(0x5eed);
    let model_ok = (0..64).all(|_| {
        let s0 = hr.next_u64();
        let mut g = Rng::from_seed(s0);
        let mut st = s0;
        (0..4).all(|_| {
            st = st.wrapping_mul(A).wrapping_add(C);
            lib!(g.next_raw()) == st ^ (st >> 32)
        })
    });
    if !model_ok {
        report.extra("special_state_seeds", "not applicable: the generator is not the modelled 64-bit LCG");
        return Vec::new();
    }
    // inverse of A modulo 2^64 (Newton iteration)
    let mut inv: u64 = A;
    for _ in 0..6 {
        inv = inv.wrapping_mul(2u64.wrapping_sub(A.wrapping_mul(inv)));
    }
    assert_eq!(A.wrapping_mul(inv), 1);
    let mut targets: Vec<u64> = vec![0, 1, 2, u64::MAX, u64::MAX - 1, C, A, C.wrapping_neg(), A.wrapping_neg(), 0xFFFF_FFFF, 0x1_0000_0000, 0xFFFF_FFFF_0000_0000];
    for b in 0..64 {
        targets.push(1u64 << b);
        targets.push((1u64 << b).wrapping_sub(1));
    }
    let mut out = Vec::new();
    for &t in &targets {
        let mut st = t;
        out.push(st); // the state is the target before the first step
        for _ in 0..4 {
            st = st.wrapping_sub(C).wrapping_mul(inv); // one step back
            out.push(st);
        }
    }
    out.sort_unstable();
    out.dedup();
    report.count("special_state_seeds", out.len() as u64);
    out
}

fn run_determinism(seed: u64, thorough: bool, report: &mut Report) {
    let mut hr = HRng::new(mix(&[seed, 19]));
    let nseeds = if thorough { 20_000 } else { 2_000 };
    let ndraws = if thorough { 2_000 } else { 500 };
    let special = special_state_seeds(report);
    for i in 0..nseeds + special.len() {
        let s = if i >= nseeds {
            special[i - nseeds]
        } else {
            match i % 4 {
                0 => i as u64,
                1 => u64::MAX - i as u64,
                _ => hr.next_u64(),
            }
        };
        report.inc("evaluations");
        report.see("nontrivial", mix(&[20, s]));
        let r = catch(|| {
            let mut a = Rng::from_seed(s);
            let mut b = Rng::from_seed(s);
            let mut ok = true;
            let mut copy_at = None;
            for k in 0..ndraws {
                if k == ndraws / 3 {
                    copy_at = Some(a); // Rng is Copy: the copy must continue the same stream
                }
                if k == ndraws / 2 || k == 1 {
                    // Clone::clone and Clone::clone_from must do what the bitwise copy does
                    let mut c1 = lib!(Clone::clone(&a));
                    let mut c2 = Rng::from_seed(12345);
                    lib!(Clone::clone_from(&mut c2, &a));
                    let mut c0 = a;
                    for _ in 0..8 {
                        let w = lib!(c0.next_raw());
                        if lib!(c1.next_raw()) != w || lib!(c2.next_raw()) != w {
                            ok = false;
                        }
                    }
                }
                let (x, y) = (lib!(a.next_raw()), lib!(b.next_raw()));
                if x != y {
                    ok = false;
                    break;
                }
                if k % 7 == 0 {
                    let (p, q): (i32, i32) = (lib!(a.next(-5..17)), lib!(b.next(-5..17)));
                    if p != q {
                        ok = false;
                        break;
                    }
                }
            }
            if let Some(mut c) = copy_at {
                // replay from the copy point with a fresh generator advanced identically
                let mut d = Rng::from_seed(s);
                for k in 0..ndraws / 3 {
                    lib!(d.next_raw());
                    if k % 7 == 0 {
                        let _: i32 = lib!(d.next(-5..17));
                    }
                }
                for _ in 0..50 {
                    if lib!(c.next_raw()) != lib!(d.next_raw()) {
                        ok = false;
                    }
                }
            }
            // shuffle determinism
            let mut v1: Vec<u32> = (0..20).collect();
            let mut v2 = v1.clone();
            lib!(Rng::from_seed(s).shuffle(&mut v1));
            lib!(Rng::from_seed(s).shuffle(&mut v2));
            ok && v1 == v2
        });
        report.count("determinism_draws", ndraws as u64 * 2);
        match r {
            Ok(true) => {}
            Ok(false) => report.violation("determinism", Json::obj().set("what", "two generators with the same seed (or a copy) produced different streams").set("seed", s), vec!["--mode".into(), "streams".into(), "--case".into(), format!("det:{}", s)]),
            Err(p) => {
                if p.in_lib {
                    report.violation("panic:determinism", Json::obj().set("panic", p.msg.as_str()).set("seed", s), vec![]);
                } else {
                    report.inconclusive(format!("harness panic: {}", p.msg));
                }
            }
        }
    }
    // different seeds should not all give the same stream (a constant generator is deterministic too)
    let mut firsts = std::collections::HashSet::new();
    for s in 0..1000u64 {
        firsts.insert(lib!(Rng::from_seed(s).next_raw()));
    }
    if firsts.len() < 990 {
        report.violation("determinism:seed_ignored", Json::obj().set("what", "different seeds give (almost) the same first output").set("distinct_first_outputs_of_1000_seeds", firsts.len()), vec![]);
    }
    let _ = lib!(Rng::from_time().next_raw());
}

fn main() {
    let eng = Engine::start("randmon");
    let a = &eng.args;
    let mode = a.str("mode", "ranges");
    let thorough = a.thorough();
    let seed = a.seed();
    let mut report = Report::new();
    report.sample_cap = 24;
    report.extra("mode", mode.as_str());
    match mode.as_str() {
        "ranges" => {
            if let Some(c) = a.opt("case") {
                replay_range(&c, &mut report);
                eng.finish(report);
            }
            run_ranges(a.threads(), thorough, seed, &mut report);
            report.extra("exhaustive", "all (start, end) pairs of u8 and i8 in every range form");
            report.sample(Json::obj().set("example", "(3u8..9).gen_from_u64(raw) for raw in 0..=12, 2^64-1-k (k<=64), multiples of 6 next to 2^64, 2^53+-k, random"));
        }
        "floats" => {
            let only = a.opt("case").map(|c| {
                let p: Vec<u64> = c.split(':').map(|x| x.parse().unwrap()).collect();
                (f64::from_bits(p[0]), f64::from_bits(p[1]), p[2])
            });
            run_floats(thorough, seed, &mut report, only);
            report.extra("exhaustive", false);
            report.sample(Json::obj().set("example", "(10.0..20.0).gen_from_u64(2^64 - 4097) must be < 20.0"));
        }
        "streams" => {
            if let Some(c) = a.opt("case") {
                let p: Vec<&str> = c.split(':').collect();
                match p[0] {
                    "shuffle" => run_shuffle_census_elem(p.get(5).map(|x| x.parse().unwrap()).unwrap_or(0), p[1].parse().unwrap(), p[2].parse().unwrap(), p[3].parse().unwrap(), p[4].parse().unwrap(), &mut report),
                    "serial" => run_serial_form(p.get(4).map(|x| x.parse().unwrap()).unwrap_or(0), p[1].parse().unwrap(), p[2].parse().unwrap(), p[3].parse().unwrap(), &mut report),
                    _ => run_determinism(seed, false, &mut report),
                }
                eng.finish(report);
            }
            run_determinism(seed, thorough, &mut report);
            // shuffle census and serial tests, sharded
            let seeds_per_census: u64 = if thorough { 2_000_000 } else { 200_000 };
            let mut tasks: Vec<(u8, u64, u64, u64)> = Vec::new(); // (kind 0 = census / 1 = serial, a, b, c)
            let mut hr = HRng::new(mix(&[seed, 21]));
            for n in 2..=6u64 {
                for kind in 0..5u64 {
                    tasks.push((0, n, kind, hr.next_u64()));
                }
            }
            // the same census for other element types (kind field = 100 * element type + seed family)
            for elem in 1..ELEM_TYPES.len() as u64 {
                for n in 2..=5u64 {
                    tasks.push((0, n, 100 * elem + (n + elem) % 5, hr.next_u64()));
                }
            }
            for &len in &[2u64, 3, 4, 5, 8, 16, 256] {
                for k in 0..(if thorough { 40 } else { 8 }) {
                    let s0 = if k == 0 { 42 } else if k == 1 { 0 } else { hr.next_u64() };
                    tasks.push((1, len, s0, 8192));
                }
            }
            // the same serial tests through every other way of writing the range (kind 2: a = form, b = len, c = seed)
            for form in 1..SERIAL_FORMS.len() as u64 {
                for &len in &[2u64, 3, 7, 16, 100, 256] {
                    tasks.push((2, form, len, if len % 2 == 0 { 42 } else { hr.next_u64() }));
                    if form >= 5 {
                        break; // these forms have a fixed number of values
                    }
                }
            }
            // every range length up to 2048 and the divisors of 2^16 +- 1, 2^32 +- 1, 2^64 - 1 (an output whose halves are
            // correlated is constant or lopsided modulo exactly such a length): value frequencies over 48*len draws
            let mut lens: Vec<u64> = (2..=2048).collect();
            lens.extend([4369u64, 21845, 65535, 65537, 6_700_417 % 100_003, 641 * 3, 641 * 5, 257 * 17, 3 * 5 * 17 * 257, 16_843_009 % 70_001]);
            for (j, &len) in lens.iter().enumerate() {
                tasks.push((3, len, if j % 3 == 0 { 42 } else { hr.next_u64() }, 48 * len));
            }
            let q = WorkQueue::new(tasks.len() as u64);
            let tasks = &tasks;
            let rep = common::run_sharded(a.threads(), |_s, rep| {
                rep.sample_cap = 24;
                while let Some(i) = q.take() {
                    let t = tasks[i as usize];
                    if t.0 == 2 {
                        run_serial_form(t.1 as usize, t.2, t.3, 8192, rep);
                        continue;
                    }
                    if t.0 == 3 {
                        run_serial_form((t.1 % 2) as usize, t.1, t.2, (t.3 as usize).max(4096), rep);
                        continue;
                    }
                    if t.0 == 0 && t.2 >= 100 {
                        run_shuffle_census_elem((t.2 / 100) as usize, t.1 as usize, (t.2 % 100) as usize, seeds_per_census / 2, t.3, rep);
                    } else if t.0 == 0 {
                        run_shuffle_census(t.1 as usize, t.2 as usize, seeds_per_census, t.3, rep);
                    } else {
                        run_serial(t.1, t.2, t.3 as usize, rep);
                    }
                }
            });
            report.merge(rep);
            report.extra("exhaustive", false);
            report.extra("chi_square_bound", "Wilson-Hilferty approximation of the 1-1e-12 quantile (z = 7.2) plus 10");
        }
        m => panic!("unknown mode {}", m),
    }
    eng.finish(report);
}
