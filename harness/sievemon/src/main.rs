//! sievemon - runtime monitor for C13 (sieve tables equal the arithmetic definitions for every n up
//! to the limit).
//!
//! A *case* is one limit N: the real `Sieve::new(N)` is built and every public table entry is compared
//! with reference tables computed in this file, never with the library:
//!   min_prime(n)  for 2 <= n <= N   = least prime dividing n
//!   is_prime(n)   for 0 <= n <= N   exact (0 and 1 are not prime)
//!   primes()                         = all primes <= N, strictly increasing
//!   factorize(n)  for 1 <= n <= N   strictly increasing primes, exact exponents >= 1, product = n,
//!                                    nothing for n = 1
//!
//! Sub-runs (`--mode every_limit|adjacent|large|all`, default all):
//!   every_limit  every N in 0..=3000 (quick) / 0..=30000 (thorough); oracle: trial division of each n
//!   adjacent     ~200 / ~2000 distinct limits from {p, p*p, p*q} + {-1, 0, +1}, p, q primes < 1000;
//!                oracle: bit sieve of Eratosthenes + smallest-factor fill
//!   large        N = 10^6 (quick), additionally 10^7 (thorough); same bit-sieve oracle
//!
//!   sievemon [--mode M] --case <N>     re-checks the single limit N verbosely
//!   optional overrides: --every-max <N> (upper end of every_limit), --adjacent-limits <count>
//!
//! Non-trivial case rule: N >= 4 (the table holds at least one composite, so the inner loop of the
//! linear sieve has written at least one entry).

use common::{catch, lib, mix, Engine, Json, PanicInfo, Report, Rng, WorkQueue};
use rlib_sieve::Sieve;
use std::cell::Cell;
use std::collections::{BTreeMap, BTreeSet};
use std::sync::atomic::{AtomicU64, Ordering};
use std::sync::Mutex;

// ------------------------------------------------------------------------------------------------
// Reference tables (harness side)

struct Truth {
    /// tables cover 0..=max
    max: usize,
    /// least prime factor; 0 for n < 2
    spf: Vec<u32>,
    isp: Vec<bool>,
    primes: Vec<u32>,
    oracle: &'static str,
}

/// least divisor >= 2 of n (n >= 2), by trial division of this n alone
fn td_least_factor(n: u32) -> u32 {
    let mut d = 2u64;
    while d * d <= n as u64 {
        if n as u64 % d == 0 {
            return d as u32;
        }
        d += 1;
    }
    n
}

/// primality of n by trial division of this n alone (written separately from `td_least_factor`)
fn td_is_prime(n: u32) -> bool {
    if n < 2 {
        return false;
    }
    if n < 4 {
        return true;
    }
    if n % 2 == 0 {
        return false;
    }
    let mut d = 3u32;
    while d <= n / d {
        if n % d == 0 {
            return false;
        }
        d += 2;
    }
    true
}

fn truth_trial(max: usize) -> Truth {
    let mut spf = vec![0u32; max + 1];
    let mut isp = vec![false; max + 1];
    let mut primes = Vec::new();
    for n in 2..=max {
        spf[n] = td_least_factor(n as u32);
        isp[n] = td_is_prime(n as u32);
        if isp[n] {
            primes.push(n as u32);
        }
    }
    Truth { max, spf, isp, primes, oracle: "trial division of every n independently" }
}

/// Classical sieve of Eratosthenes on a bit set (cross off multiples from p*p), then a smallest-factor
/// fill that walks the multiples of every prime in ascending order and keeps the first writer.
fn truth_sieve(max: usize) -> Truth {
    let mut comp = vec![0u64; max / 64 + 1];
    let mut p = 2usize;
    while p * p <= max {
        if comp[p >> 6] >> (p & 63) & 1 == 0 {
            let mut m = p * p;
            while m <= max {
                comp[m >> 6] |= 1u64 << (m & 63);
                m += p;
            }
        }
        p += 1;
    }
    let mut isp = vec![false; max + 1];
    let mut primes = Vec::new();
    for n in 2..=max {
        if comp[n >> 6] >> (n & 63) & 1 == 0 {
            isp[n] = true;
            primes.push(n as u32);
        }
    }
    let mut spf = vec![0u32; max + 1];
    for &p in &primes {
        let mut m = p as usize;
        while m <= max {
            if spf[m] == 0 {
                spf[m] = p;
            }
            m += p as usize;
        }
    }
    Truth { max, spf, isp, primes, oracle: "bit sieve of Eratosthenes + smallest-factor fill" }
}

const PI_TABLE: &[(usize, usize)] = &[
    (10, 4),
    (100, 25),
    (1_000, 168),
    (3_000, 430),
    (10_000, 1_229),
    (30_000, 3_245),
    (100_000, 9_592),
    (1_000_000, 78_498),
    (10_000_000, 664_579),
];

/// Harness self-check of a reference table: known prime counts, internal consistency, and spot checks
/// against trial division. Failures are harness problems (inconclusive), never violations.
fn self_check(t: &Truth, seed: u64, rep: &mut Report) {
    for &(x, pi) in PI_TABLE {
        if x <= t.max {
            let c = t.primes.partition_point(|&p| p as usize <= x);
            if c != pi {
                rep.inconclusive(format!("oracle self-check ({}): pi({}) = {} but the reference table has {}", t.oracle, x, pi, c));
            }
        }
    }
    if t.max >= 1 && (t.isp[0] || t.isp[1] || t.spf[0] != 0 || t.spf[1] != 0) {
        rep.inconclusive(format!("oracle self-check ({}): entries for 0/1", t.oracle));
    }
    let mut bad = 0u64;
    for n in 2..=t.max {
        let f = t.spf[n] as usize;
        if f < 2 || n % f != 0 || t.spf[f] as usize != f || (f == n) != t.isp[n] {
            bad += 1;
        }
    }
    if bad > 0 {
        rep.inconclusive(format!("oracle self-check ({}): {} internally inconsistent entries", t.oracle, bad));
    }
    if !t.primes.windows(2).all(|w| w[0] < w[1]) {
        rep.inconclusive(format!("oracle self-check ({}): prime list not increasing", t.oracle));
    }
    if t.max >= 2 {
        let mut rng = Rng::new(mix(&[seed, 0x5e1f]));
        let mut probes: Vec<usize> = (0..3000).map(|_| 2 + rng.usize_below(t.max - 1)).collect();
        probes.extend([t.max, t.max - 1].iter().filter(|&&x| x >= 2));
        for n in probes {
            if t.spf[n] != td_least_factor(n as u32) || t.isp[n] != td_is_prime(n as u32) {
                rep.inconclusive(format!("oracle self-check ({}): entry {} disagrees with trial division", t.oracle, n));
                break;
            }
        }
    }
}

/// two independently written reference tables must agree on their common prefix
fn cross_check(a: &Truth, b: &Truth, rep: &mut Report) {
    let m = a.max.min(b.max);
    let pa = a.primes.partition_point(|&p| p as usize <= m);
    let pb = b.primes.partition_point(|&p| p as usize <= m);
    if a.spf[..=m] != b.spf[..=m] || a.isp[..=m] != b.isp[..=m] || a.primes[..pa] != b.primes[..pb] {
        rep.inconclusive(format!("oracle self-check: '{}' and '{}' disagree below {}", a.oracle, b.oracle, m));
    }
}

fn want_factors(t: &Truth, n: usize) -> Vec<(u32, u32)> {
    let mut v = Vec::new();
    let mut m = n;
    while m > 1 {
        let p = t.spf[m] as usize;
        let mut e = 0;
        while m % p == 0 {
            m /= p;
            e += 1;
        }
        v.push((p as u32, e));
    }
    v
}

fn isqrt(x: usize) -> usize {
    let mut r = (x as f64).sqrt() as usize;
    while r * r > x {
        r -= 1;
    }
    while (r + 1) * (r + 1) <= x {
        r += 1;
    }
    r
}

/// position of the limit relative to primes, prime squares and products of two distinct primes
fn limit_classes(t: &Truth, n: usize) -> Vec<&'static str> {
    let isp = |x: usize| x <= t.max && t.isp[x];
    let psq = |x: usize| {
        let r = isqrt(x);
        r * r == x && isp(r)
    };
    let semi = |x: usize| {
        if x < 6 || x > t.max {
            return false;
        }
        let p = t.spf[x] as usize;
        let q = x / p;
        q != p && isp(q)
    };
    let mut c = Vec::new();
    let mut add = |b: bool, s: &'static str| {
        if b {
            c.push(s)
        }
    };
    add(isp(n), "prime");
    add(isp(n + 1), "prime-1");
    add(n >= 1 && isp(n - 1), "prime+1");
    add(psq(n), "prime_square");
    add(psq(n + 1), "prime_square-1");
    add(n >= 1 && psq(n - 1), "prime_square+1");
    add(semi(n), "semiprime");
    add(semi(n + 1), "semiprime-1");
    add(n >= 1 && semi(n - 1), "semiprime+1");
    if c.is_empty() {
        c.push("other");
    }
    c
}

// ------------------------------------------------------------------------------------------------
// Findings: one violation per signature, keeping the smallest (limit, n) witness over all shards

struct Finding {
    limit: usize,
    n: usize,
    detail: Json,
    replay: Vec<String>,
}

struct Findings {
    best: Mutex<BTreeMap<String, Finding>>,
    total: AtomicU64,
}

impl Findings {
    fn new() -> Self {
        Findings { best: Mutex::new(BTreeMap::new()), total: AtomicU64::new(0) }
    }
    fn add(&self, sig: &str, f: Finding) {
        self.total.fetch_add(1, Ordering::Relaxed);
        let mut b = self.best.lock().unwrap();
        match b.get(sig) {
            Some(old) if (old.limit, old.n) <= (f.limit, f.n) => {}
            _ => {
                b.insert(sig.to_string(), f);
            }
        }
    }
    fn flush(self, report: &mut Report) {
        let total = self.total.load(Ordering::Relaxed);
        for (sig, f) in self.best.into_inner().unwrap() {
            report.violation(sig, f.detail, f.replay);
        }
        report.violations_total = report.violations_total.max(total);
    }
}

/// per-limit collection: first witness per signature, number of mismatching entries per signature
struct Notes {
    first: BTreeMap<String, (usize, Json)>,
    counts: BTreeMap<String, u64>,
    verbose: bool,
    printed: usize,
}

impl Notes {
    fn note(&mut self, sig: &str, n: usize, mk: impl FnOnce() -> Json) {
        *self.counts.entry(sig.to_string()).or_insert(0) += 1;
        let is_first = !self.first.contains_key(sig);
        if is_first || (self.verbose && self.printed < 60) {
            let d = mk();
            if self.verbose && self.printed < 60 {
                self.printed += 1;
                eprintln!("  MISMATCH {} at n={}: {}", sig, n, d.dump());
            }
            if is_first {
                self.first.insert(sig.to_string(), (n, d));
            }
        }
    }
}

// ------------------------------------------------------------------------------------------------
// One case

struct Cx<'a> {
    truth: &'a Truth,
    sub: &'static str,
    findings: &'a Findings,
    verbose: bool,
}

/// Runs `body(n)` for n in from..=to; a panic at some n is recorded and the loop resumes at n + 1.
fn guarded(from: usize, to: usize, mut body: impl FnMut(usize)) -> Vec<(usize, PanicInfo)> {
    let mut panics = Vec::new();
    let mut start = from;
    while start <= to {
        let cur = Cell::new(start);
        let r = catch(|| {
            for n in start..=to {
                cur.set(n);
                body(n);
            }
        });
        match r {
            Ok(()) => break,
            Err(p) => {
                let at = cur.get();
                panics.push((at, p));
                if panics.len() >= 8 {
                    break;
                }
                start = at + 1;
            }
        }
    }
    panics
}

fn note_panics(table: &str, panics: Vec<(usize, PanicInfo)>, limit: usize, notes: &mut Notes, rep: &mut Report) {
    for (n, p) in panics {
        if p.in_lib {
            notes.note(&format!("panic:{}", table), n, || {
                Json::obj()
                    .set("what", format!("the library panicked in {}(n) for an n inside the limit", table))
                    .set("n", n)
                    .set("panic", p.msg.as_str())
                    .set("at", format!("{}:{}", p.file, p.line))
            });
        } else {
            rep.inconclusive(format!("harness panic at {}:{} (limit {}, {} n={}): {}", p.file, p.line, limit, table, n, p.msg));
        }
    }
}

fn pairs_json(v: &[(i64, i64)]) -> Json {
    Json::Arr(v.iter().map(|&(p, e)| Json::Arr(vec![p.into(), e.into()])).collect())
}

/// what the library's factorize(n) yields (at most 64 items), for witnesses and samples
fn lib_factor_list(sieve: &Sieve, n: usize) -> Json {
    let r = catch(|| {
        let mut v: Vec<(i64, i64)> = Vec::new();
        let mut it = lib!(sieve.factorize(n as i32));
        while let Some((p, e)) = lib!(it.next()) {
            v.push((p as i64, e as i64));
            if v.len() >= 64 {
                break;
            }
        }
        v
    });
    match r {
        Ok(v) => pairs_json(&v),
        Err(p) => Json::from(format!("panic: {}", p.msg)),
    }
}

fn want_factor_json(t: &Truth, n: usize) -> Json {
    let w: Vec<(i64, i64)> = want_factors(t, n).iter().map(|&(p, e)| (p as i64, e as i64)).collect();
    pairs_json(&w)
}

/// Would the library's factorisation loop terminate on its own table? Only consulted for limits whose
/// min_prime table already mismatched (a table entry equal to 1 makes `n /= p` spin forever in release).
fn chain_terminates(sieve: &Sieve, n: usize, limit: usize) -> bool {
    let mut m = n as i64;
    for _ in 0..80 {
        if m == 1 || m < 0 || m as usize > limit {
            return true; // ends, or indexes out of bounds (a panic, which is caught)
        }
        let p = lib!(sieve.min_prime(m as i32)) as i64;
        if p == 1 {
            return false;
        }
        if p == 0 {
            return true; // division by zero (a panic, which is caught)
        }
        m /= p;
    }
    true
}

#[derive(Default)]
struct FactorStats {
    max_exponent: i64,
    max_distinct: i64,
}

/// Streams the library's factorize(n) against the reference chain; returns the kind of the first
/// deviation.
#[inline]
fn check_factorize(sieve: &Sieve, t: &Truth, n: usize, st: &mut FactorStats) -> Option<&'static str> {
    let mut m = n; // part of n the reference has not yet accounted for
    let mut prev = 0i64;
    let mut prod: u64 = 1;
    let mut items = 0i64;
    let mut problem: Option<&'static str> = None;
    let mut it = lib!(sieve.factorize(n as i32));
    loop {
        let (p, e) = match lib!(it.next()) {
            None => break,
            Some(x) => (x.0 as i64, x.1 as i64),
        };
        items += 1;
        if items > 64 {
            problem.get_or_insert("extra");
            break;
        }
        if problem.is_none() {
            if p <= prev {
                problem = Some("not_increasing");
            } else if e < 1 {
                problem = Some("wrong_exponent");
            } else if m == 1 {
                problem = Some("extra");
            } else {
                let wp = t.spf[m] as usize;
                let mut we = 0i64;
                while m % wp == 0 {
                    m /= wp;
                    we += 1;
                }
                if p != wp as i64 {
                    // the expected next prime was skipped if p is a later prime factor of n
                    let later = p > wp as i64 && (p as usize) <= t.max && t.isp[p as usize] && n % (p as usize) == 0;
                    problem = Some(if later { "missing" } else { "wrong_value" });
                } else if e != we {
                    problem = Some("wrong_exponent");
                }
            }
        }
        prev = p;
        if p >= 2 && (1..=64).contains(&e) {
            for _ in 0..e {
                prod = prod.saturating_mul(p as u64);
            }
        } else {
            prod = 0;
        }
        if e > st.max_exponent {
            st.max_exponent = e;
        }
    }
    if items > st.max_distinct {
        st.max_distinct = items;
    }
    if problem.is_none() && m != 1 {
        problem = Some("missing");
    }
    if problem.is_none() && prod != n as u64 {
        problem = Some("product");
    }
    problem
}

fn check_limit(limit: usize, cx: &Cx, want_sample: bool, rep: &mut Report) {
    let t = cx.truth;
    assert!(limit + 1 <= t.max, "reference tables too short for limit {}", limit);
    assert!(limit < i32::MAX as usize);
    rep.inc("evaluations");
    rep.inc(&format!("limits_{}", cx.sub));
    rep.max("max_limit", limit as i64);
    if limit >= 4 {
        rep.see("nontrivial", limit as u64);
    }
    let classes = limit_classes(t, limit);
    for c in &classes {
        rep.see_str("limit_classes", c);
    }
    let replay = vec!["--mode".to_string(), cx.sub.to_string(), "--case".to_string(), limit.to_string()];
    let mut notes = Notes { first: BTreeMap::new(), counts: BTreeMap::new(), verbose: cx.verbose, printed: 0 };
    if cx.verbose {
        eprintln!("limit N = {} ({}), sub-run {}, oracle: {}", limit, classes.join(", "), cx.sub, t.oracle);
    }

    // the expected prime list, known before the library is called
    let want_primes: &[u32] = &t.primes[..t.primes.partition_point(|&p| p as usize <= limit)];

    let sieve = match catch(|| lib!(Sieve::new(limit))) {
        Ok(s) => Some(s),
        Err(p) => {
            if p.in_lib {
                notes.note("panic:new", limit, || {
                    Json::obj()
                        .set("what", "Sieve::new(N) panicked")
                        .set("panic", p.msg.as_str())
                        .set("at", format!("{}:{}", p.file, p.line))
                });
            } else {
                rep.inconclusive(format!("harness panic at {}:{} (limit {}): {}", p.file, p.line, limit, p.msg));
            }
            None
        }
    };

    if let Some(sieve) = sieve.as_ref() {
        let mut entries = 0u64;

        // ---- min_prime, 2 <= n <= N
        let panics = guarded(2, limit, |n| {
            let want = t.spf[n];
            let got = lib!(sieve.min_prime(n as i32));
            if got as i64 != want as i64 {
                notes.note("min_prime:wrong_value", n, || {
                    Json::obj()
                        .set("what", "min_prime(n) is not the least prime dividing n")
                        .set("n", n)
                        .set("got", got)
                        .set("want", want)
                });
            }
        });
        let min_prime_bad = !notes.counts.is_empty() || !panics.is_empty();
        note_panics("min_prime", panics, limit, &mut notes, rep);
        if limit >= 2 {
            rep.count("min_prime_entries", (limit - 1) as u64);
            entries += (limit - 1) as u64;
        }

        // ---- is_prime, 0 <= n <= N
        let panics = guarded(0, limit, |n| {
            let want = t.isp[n];
            let got = lib!(sieve.is_prime(n as i32));
            if got != want {
                notes.note("is_prime:wrong_value", n, || {
                    Json::obj().set("what", "is_prime(n) is wrong").set("n", n).set("got", got).set("want", want)
                });
            }
        });
        note_panics("is_prime", panics, limit, &mut notes, rep);
        rep.count("is_prime_entries", (limit + 1) as u64);
        entries += (limit + 1) as u64;

        // ---- primes()
        let r = catch(|| {
            let got: &Vec<i32> = lib!(sieve.primes());
            if let Some(i) = (1..got.len()).find(|&i| got[i - 1] >= got[i]) {
                notes.note("primes:not_increasing", i, || {
                    Json::obj()
                        .set("what", "primes() is not strictly increasing")
                        .set("index", i)
                        .set("got", vec![got[i - 1], got[i]])
                });
            }
            let same = got.len() == want_primes.len() && got.iter().zip(want_primes).all(|(&g, &w)| g as i64 == w as i64);
            if !same {
                let i = (0..got.len().min(want_primes.len())).find(|&i| got[i] as i64 != want_primes[i] as i64).unwrap_or(got.len().min(want_primes.len()));
                let g: Option<i32> = got.get(i).cloned();
                let w: Option<u32> = want_primes.get(i).cloned();
                let kind = match (g, w) {
                    (None, _) => "missing",
                    (_, None) => "extra",
                    (Some(g), Some(w)) if g as i64 > w as i64 => "missing",
                    _ => "extra",
                };
                notes.note(&format!("primes:{}", kind), w.map(|x| x as usize).or(g.map(|x| x as usize)).unwrap_or(0), || {
                    Json::obj()
                        .set("what", "primes() is not the list of all primes <= N")
                        .set("index", i)
                        .set("got", g)
                        .set("want", w)
                        .set("got_len", got.len())
                        .set("want_len", want_primes.len())
                });
            }
            got.len()
        });
        match r {
            Ok(_) => {}
            Err(p) => note_panics("primes", vec![(0, p)], limit, &mut notes, rep),
        }
        rep.count("primes_entries", want_primes.len() as u64);
        entries += want_primes.len() as u64;

        // ---- factorize, 1 <= n <= N
        let mut st = FactorStats::default();
        let mut protocol_scripts = 0u64;
        let panics = guarded(1, limit, |n| {
            if min_prime_bad && !chain_terminates(sieve, n, limit) {
                notes.note("factorize:nonterminating", n, || {
                    Json::obj()
                        .set("what", "factorize(n) was not called: its loop cannot terminate on the library's own min_prime table (an entry equals 1)")
                        .set("n", n)
                        .set("want", want_factor_json(t, n))
                });
                return;
            }
            if let Some(kind) = check_factorize(sieve, t, n, &mut st) {
                notes.note(&format!("factorize:{}", kind), n, || {
                    Json::obj()
                        .set("what", "factorize(n) is not the strictly increasing prime factorisation of n with exact exponents")
                        .set("n", n)
                        .set("got", lib_factor_list(sieve, n))
                        .set("want", want_factor_json(t, n))
                });
            }
            else if n > 1 && (n % 61 == 0 || n + 40 >= limit) {
                // the same iterator through a random script of Iterator calls (nth, by_ref adaptors, fold-based terminals)
                let want: Vec<(i32, i32)> = want_factors(t, n).iter().map(|&(p, e)| (p as i32, e as i32)).collect();
                let mut r = Rng::new(mix(&[0xfac7, n as u64, limit as u64]));
                protocol_scripts += 1;
                if let Err(e) = common::iter_protocol(sieve.factorize(n as i32), &want, &mut r, 8) {
                    notes.note("factorize:iterator_protocol", n, || {
                        Json::obj()
                            .set("what", "factorize(n) seen through standard Iterator calls does not behave like the list of its prime powers")
                            .set("n", n)
                            .set("script", e.as_str())
                            .set("want", want_factor_json(t, n))
                    });
                }
            }
        });
        note_panics("factorize", panics, limit, &mut notes, rep);
        rep.count("factorizations", limit as u64);
        // ---- numbers rich in distinct primes: every skipping entry point exactly (nth(k), skip(k), step_by(k + 1) for every
        // k up to one past the number of prime powers) - a shortcut keyed on "how many primes can be left" lives here
        if limit >= 30030 && !min_prime_bad {
            let mut rich = 0u64;
            let panics = guarded(30030, limit, |n| {
                // cheap pre-filter: at least 3 of the 5 smallest primes divide n
                let small = (n % 2 == 0) as u32 + (n % 3 == 0) as u32 + (n % 5 == 0) as u32 + (n % 7 == 0) as u32 + (n % 11 == 0) as u32;
                if small < 3 {
                    return;
                }
                let want: Vec<(i32, i32)> = want_factors(t, n).iter().map(|&(p, e)| (p as i32, e as i32)).collect();
                if want.len() < 6 && !(want.len() == 5 && n % 13 == 0) {
                    return;
                }
                rich += 1;
                for k in 0..=want.len() + 1 {
                    let got_nth = lib!(sieve.factorize(n as i32).nth(k));
                    let got_skip: Vec<(i32, i32)> = lib!(sieve.factorize(n as i32).skip(k).collect());
                    let got_step: Vec<(i32, i32)> = lib!(sieve.factorize(n as i32).step_by(k + 1).collect());
                    let want_step: Vec<(i32, i32)> = want.iter().cloned().step_by(k + 1).collect();
                    let want_skip: Vec<(i32, i32)> = want.iter().cloned().skip(k).collect();
                    if got_nth != want.get(k).cloned() || got_skip != want_skip || got_step != want_step {
                        notes.note("factorize:iterator_protocol", n, || {
                            Json::obj()
                                .set("what", "factorize(n).nth(k) / .skip(k) / .step_by(k + 1) differ from the same calls on the list of prime powers")
                                .set("n", n)
                                .set("k", k)
                                .set("nth", format!("{:?}", got_nth))
                                .set("skip", format!("{:?}", got_skip))
                                .set("step_by", format!("{:?}", got_step))
                                .set("want", want_factor_json(t, n))
                        });
                        return;
                    }
                }
            });
            note_panics("factorize", panics, limit, &mut notes, rep);
            rep.count("rich_numbers_with_every_skip_checked", rich);
            // two factorisations alive at once and consumed in turns (zip; a merge walk over two peekable iterators)
            let mut pairs = 0u64;
            let step = (limit / 20_000).max(1);
            let panics = guarded(2, limit.saturating_sub(40), |n| {
                if n % step != 0 {
                    return;
                }
                let m = n + 1 + n % 37;
                let wa: Vec<(i32, i32)> = want_factors(t, n).iter().map(|&(p, e)| (p as i32, e as i32)).collect();
                let wb: Vec<(i32, i32)> = want_factors(t, m).iter().map(|&(p, e)| (p as i32, e as i32)).collect();
                pairs += 1;
                let got: Vec<((i32, i32), (i32, i32))> = lib!(sieve.factorize(n as i32).zip(sieve.factorize(m as i32)).collect());
                let want: Vec<((i32, i32), (i32, i32))> = wa.iter().cloned().zip(wb.iter().cloned()).collect();
                // merge walk: the primes of both, in increasing order, each with the larger exponent (the lcm)
                let mut ia = lib!(sieve.factorize(n as i32)).peekable();
                let mut ib = lib!(sieve.factorize(m as i32)).peekable();
                let mut merged: Vec<(i32, i32)> = Vec::new();
                loop {
                    match (lib!(ia.peek()).cloned(), lib!(ib.peek()).cloned()) {
                        (None, None) => break,
                        (Some(x), None) => {
                            merged.push(x);
                            lib!(ia.next());
                        }
                        (None, Some(y)) => {
                            merged.push(y);
                            lib!(ib.next());
                        }
                        (Some(x), Some(y)) => {
                            if x.0 < y.0 {
                                merged.push(x);
                                lib!(ia.next());
                            } else if y.0 < x.0 {
                                merged.push(y);
                                lib!(ib.next());
                            } else {
                                merged.push((x.0, x.1.max(y.1)));
                                lib!(ia.next());
                                lib!(ib.next());
                            }
                        }
                    }
                    if merged.len() > 64 {
                        break;
                    }
                }
                let mut want_merged: Vec<(i32, i32)> = Vec::new();
                {
                    let (mut i, mut j) = (0, 0);
                    while i < wa.len() || j < wb.len() {
                        if j == wb.len() || (i < wa.len() && wa[i].0 < wb[j].0) {
                            want_merged.push(wa[i]);
                            i += 1;
                        } else if i == wa.len() || wb[j].0 < wa[i].0 {
                            want_merged.push(wb[j]);
                            j += 1;
                        } else {
                            want_merged.push((wa[i].0, wa[i].1.max(wb[j].1)));
                            i += 1;
                            j += 1;
                        }
                    }
                }
                if got != want || merged != want_merged {
                    notes.note("factorize:interleaved_iterators", n, || {
                        Json::obj()
                            .set("what", "two factorisation iterators consumed in turns (zip / merge walk) do not behave like the two lists of prime powers")
                            .set("n", n)
                            .set("m", m)
                            .set("zip", format!("{:?}", got))
                            .set("merge_walk", format!("{:?}", merged))
                            .set("want_n", want_factor_json(t, n))
                            .set("want_m", want_factor_json(t, m))
                    });
                }
            });
            note_panics("factorize", panics, limit, &mut notes, rep);
            rep.count("interleaved_factorisation_pairs", pairs);
        }
        // ---- the same table queried in random order (a scan in increasing n never asks for two far-apart numbers in a row)
        if limit >= 1 << 20 && !min_prime_bad {
            let mut r = Rng::new(mix(&[0x5af1, limit as u64]));
            let count = (limit / 8).min(3_000_000);
            let mut k = 0usize;
            let mut cur = 2usize;
            let panics = guarded(1, count, |_i| {
                // two of three queries are uniform, the third lies a multiple of 2^k..2^k + 2^20 away from the previous one
                cur = if k % 3 == 2 { (cur + ((1usize << (10 + r.below(14))) + r.below(1 << 20) as usize)) % (limit - 1) + 2 } else { 2 + r.below(limit as u64 - 1) as usize };
                k += 1;
                let n = cur.min(limit);
                if let Some(kind) = check_factorize(sieve, t, n, &mut st) {
                    notes.note(&format!("factorize:{}", kind), n, || {
                        Json::obj()
                            .set("what", "factorize(n), asked in random order, is not the prime factorisation of n")
                            .set("n", n)
                            .set("got", lib_factor_list(sieve, n))
                            .set("want", want_factor_json(t, n))
                    });
                }
            });
            note_panics("factorize", panics, limit, &mut notes, rep);
            rep.count("factorizations_in_random_order", count as u64);
        }
        rep.count("factorize_iterator_protocol_scripts", protocol_scripts);
        entries += limit as u64;
        rep.max("max_exponent_seen", st.max_exponent);
        rep.max("max_distinct_prime_factors_seen", st.max_distinct);
        rep.count("entries_checked", entries);

        if want_sample || cx.verbose {
            let r = catch(|| {
                let ps: &Vec<i32> = lib!(sieve.primes());
                let mut j = Json::obj()
                    .set("subrun", cx.sub)
                    .set("limit", limit)
                    .set("limit_classes", Json::from(classes.iter().map(|s| s.to_string()).collect::<Vec<_>>()))
                    .set("primes_count", ps.len())
                    .set("want_primes_count", want_primes.len())
                    .set("last_prime", ps.last().cloned())
                    .set("want_last_prime", want_primes.last().cloned());
                if limit >= 2 {
                    j.push_kv("min_prime_of_limit", lib!(sieve.min_prime(limit as i32)));
                    j.push_kv("want_min_prime_of_limit", t.spf[limit]);
                }
                if limit >= 1 {
                    j.push_kv("factorize_of_limit", lib_factor_list(sieve, limit));
                    j.push_kv("want_factorize_of_limit", want_factor_json(t, limit));
                }
                j.push_kv("entries_compared", entries);
                j
            });
            if let Ok(j) = r {
                if cx.verbose {
                    eprintln!("  summary: {}", j.dump());
                    let r2 = catch(|| {
                        let upto = limit.min(60);
                        for n in 0..=upto {
                            let mp = if n >= 2 { format!("{}", lib!(sieve.min_prime(n as i32))) } else { "-".into() };
                            let f = if n >= 1 { lib_factor_list(sieve, n).dump() } else { "-".into() };
                            eprintln!(
                                "  n={:<3} is_prime={:<5} (want {:<5}) min_prime={:<3} (want {:<3}) factorize={} (want {})",
                                n,
                                lib!(sieve.is_prime(n as i32)),
                                t.isp[n],
                                mp,
                                if n >= 2 { t.spf[n].to_string() } else { "-".into() },
                                f,
                                if n >= 1 { want_factor_json(t, n).dump() } else { "-".into() }
                            );
                        }
                        if limit > upto {
                            eprintln!("  ... ({} more entries compared, only mismatches are printed)", limit - upto);
                        }
                    });
                    let _ = r2;
                }
                if want_sample {
                    rep.sample(j);
                }
            }
        }
    }

    if cx.verbose {
        eprintln!("  result for limit {}: {} distinct problem kinds", limit, notes.first.len());
    }
    for (sig, (n, detail)) in notes.first {
        let cnt = notes.counts.get(&sig).cloned().unwrap_or(1);
        let d = Json::obj()
            .set("limit", limit)
            .set("detail", detail)
            .set("mismatching_entries_at_this_limit", cnt)
            .set("limit_classes", Json::from(classes.iter().map(|s| s.to_string()).collect::<Vec<_>>()))
            .set("subrun", cx.sub)
            .set("oracle", t.oracle);
        cx.findings.add(&sig, Finding { limit, n, detail: d, replay: replay.clone() });
    }
}

// ------------------------------------------------------------------------------------------------

/// distinct limits from {p, p*p, p*q} + {-1, 0, +1} with p, q primes below 1000, largest first
fn adjacent_limits(seed: u64, count: usize, small_primes: &[u32]) -> Vec<usize> {
    let mut rng = Rng::new(mix(&[seed, 0xad1a]));
    let mut set: BTreeSet<usize> = BTreeSet::new();
    // limits around the sizes at which a narrowed table type or index would wrap (2^16, 2^17, 2^18, 2^19, and the
    // i32 square-root threshold 46340/46341 with its first prime 46349)
    for n in [65535usize, 65536, 65537, 65538, 131070, 131071, 131072, 131073, 131074, 262143, 262144, 262145, 524287, 524288, 524289, 46340, 46341, 46348, 46349, 46350, 92681, 92682] {
        set.insert(n);
    }
    let mut attempts = 0;
    while set.len() < count && attempts < count * 100 {
        attempts += 1;
        let p = *rng.pick(small_primes) as usize;
        let q = *rng.pick(small_primes) as usize;
        let base = match rng.weighted(&[1, 2, 3]) {
            0 => p,
            1 => p * p,
            _ => p * q,
        };
        let n = base + rng.usize_below(3) - 1;
        set.insert(n);
    }
    set.into_iter().rev().collect()
}

const EVERY_Q: usize = 3_000;
const EVERY_T: usize = 30_000;
const ADJ_PRIME_BOUND: usize = 1_000;
const CASE_MAX: usize = 80_000_000;

// ------------------------------------------------------------------------------------------------
// giant limits: far beyond the scale at which a full smallest-factor reference is affordable per run, so the table is
// checked completely only where a bit set suffices (is_prime for every n, the whole prime list, "min_prime(n) is a
// prime that divides n" for every n) and factorize / min_prime are checked against trial division on the numbers
// where structure concentrates: the nine-distinct-primes numbers, every prime power, smooth numbers, semiprimes
// of two large primes, both ends of the table, neighbourhoods of powers of two, and a random sample.

fn td_factor(mut n: u64) -> Vec<(u32, u32)> {
    let mut out = Vec::new();
    let mut d = 2u64;
    while d * d <= n {
        if n % d == 0 {
            let mut e = 0;
            while n % d == 0 {
                n /= d;
                e += 1;
            }
            out.push((d as u32, e));
        }
        d += if d == 2 { 1 } else { 2 };
    }
    if n > 1 {
        out.push((n as u32, 1));
    }
    out
}

fn giant_numbers(limit: usize, seed: u64) -> Vec<usize> {
    let l = limit as u64;
    let mut v: Vec<u64> = Vec::new();
    for n in 2..3002u64.min(l + 1) {
        v.push(n);
    }
    for n in l.saturating_sub(3000).max(2)..=l {
        v.push(n);
    }
    let small: Vec<u64> = (2..1000u64).filter(|&x| td_is_prime(x as u32)).collect();
    // every prime power of the primes below 1000 (and both neighbours)
    for &p in &small {
        let mut x = p;
        while x <= l {
            for y in [x - 1, x, x + 1] {
                if y >= 2 && y <= l {
                    v.push(y);
                }
            }
            x *= p;
        }
    }
    // square-free products of the first 13 primes (2 * 3 * ... * 23 = 223092870 is the smallest number with nine distinct
    // prime factors), each also times 2, 3, 4 where that fits
    for mask in 1u32..(1 << 13) {
        let mut x = 1u64;
        for (b, &p) in small.iter().take(13).enumerate() {
            if mask >> b & 1 == 1 {
                x = x.saturating_mul(p);
                if x > l {
                    break;
                }
            }
        }
        for k in 1..=4u64 {
            if x.saturating_mul(k) <= l {
                v.push(x * k);
            }
        }
    }
    // 2-3-5-7-smooth numbers
    let mut a = 1u64;
    while a <= l {
        let mut b = a;
        while b <= l {
            let mut c = b;
            while c <= l {
                let mut d = c;
                while d <= l {
                    if d >= 2 {
                        v.push(d);
                    }
                    d *= 7;
                }
                c *= 5;
            }
            b *= 3;
        }
        a *= 2;
    }
    // semiprimes and squares of primes around sqrt(limit)
    let r = isqrt(limit) as u64;
    let near: Vec<u64> = (r.saturating_sub(600)..=r + 5).filter(|&x| x >= 2 && td_is_prime(x as u32)).collect();
    for (i, &p) in near.iter().enumerate() {
        for &q in near.iter().skip(i).take(40) {
            if p * q <= l {
                v.push(p * q);
            }
        }
    }
    // neighbourhoods of powers of two
    for e in 8..=30u32 {
        let c = 1u64 << e;
        for y in c.saturating_sub(40)..=c + 40 {
            if y >= 2 && y <= l {
                v.push(y);
            }
        }
    }
    let mut rng = Rng::new(mix(&[seed, 0x61A7, l]));
    for _ in 0..40_000 {
        v.push(2 + rng.below(l - 1));
    }
    v.sort_unstable();
    v.dedup();
    v.into_iter().map(|x| x as usize).collect()
}

fn check_giant(limit: usize, seed: u64, findings: &Findings, rep: &mut Report) {
    rep.inc("evaluations");
    rep.inc("limits_giant");
    rep.max("max_limit", limit as i64);
    rep.see("nontrivial", limit as u64);
    let replay = vec!["--mode".to_string(), "giant".to_string(), "--giant-limit".to_string(), limit.to_string()];
    let add = |sig: &str, n: usize, d: Json| {
        findings.add(sig, Finding { limit, n, detail: d.set("limit", limit).set("n", n), replay: replay.clone() });
    };
    // reference: a bit set of composites (Eratosthenes from p * p)
    let mut comp = vec![0u64; limit / 64 + 1];
    let mut p = 2usize;
    while p * p <= limit {
        if comp[p >> 6] >> (p & 63) & 1 == 0 {
            let mut m = p * p;
            while m <= limit {
                comp[m >> 6] |= 1u64 << (m & 63);
                m += p;
            }
        }
        p += 1;
    }
    let is_p = |n: usize| n >= 2 && comp[n >> 6] >> (n & 63) & 1 == 0;
    // harness self-check of the bit set against trial division
    let mut rng = Rng::new(mix(&[seed, 0x5E1F, limit as u64]));
    for _ in 0..2000 {
        let n = 2 + rng.below(limit as u64 - 1) as usize;
        if is_p(n) != td_is_prime(n as u32) {
            rep.inconclusive(format!("harness: the reference bit set disagrees with trial division at {}", n));
            return;
        }
    }
    let sieve = match catch(|| lib!(Sieve::new(limit))) {
        Ok(s) => s,
        Err(p) => {
            if p.in_lib {
                add("panic:new", limit, Json::obj().set("what", "Sieve::new(N) panicked").set("panic", p.msg.as_str()).set("at", format!("{}:{}", p.file, p.line)));
            } else {
                rep.inconclusive(format!("harness panic at {}:{}: {}", p.file, p.line, p.msg));
            }
            return;
        }
    };
    // every n: is_prime, and min_prime(n) is a prime dividing n (n itself exactly when n is prime)
    let r = catch(|| {
        let mut bad_isp = 0u64;
        let mut bad_mp = 0u64;
        let mut first: Option<(usize, &'static str, i64)> = None;
        for n in 2..=limit {
            let ip = lib!(sieve.is_prime(n as i32));
            if ip != is_p(n) {
                bad_isp += 1;
                first.get_or_insert((n, "is_prime", ip as i64));
            }
            let mp = lib!(sieve.min_prime(n as i32)) as i64;
            let ok = mp >= 2 && (mp as usize) <= n && n % (mp as usize) == 0 && is_p(mp as usize) && ((mp as usize == n) == is_p(n)) && (mp as usize == n || (mp * mp) as usize <= n);
            if !ok {
                bad_mp += 1;
                first.get_or_insert((n, "min_prime", mp));
            }
        }
        (bad_isp, bad_mp, first)
    });
    rep.count("giant_entries_checked_against_bit_set", 2 * (limit as u64 - 1));
    match r {
        Ok((bi, bm, first)) => {
            if let Some((n, which, got)) = first {
                add(
                    &format!("giant:{}", which),
                    n,
                    Json::obj().set("what", "a table entry of a giant sieve is wrong").set("entry", which).set("got", got).set("reference_is_prime", is_p(n)).set("wrong_is_prime_entries", bi).set("wrong_min_prime_entries", bm),
                );
            }
        }
        Err(p) => {
            if p.in_lib {
                add("panic:giant_table", limit, Json::obj().set("what", "is_prime / min_prime panicked for an n within the limit").set("panic", p.msg.as_str()).set("at", format!("{}:{}", p.file, p.line)));
            } else {
                rep.inconclusive(format!("harness panic at {}:{}: {}", p.file, p.line, p.msg));
            }
        }
    }
    // the prime list
    let primes = lib!(sieve.primes());
    let mut k = 0usize;
    let mut bad: Option<(usize, i64)> = None;
    for n in 2..=limit {
        if is_p(n) {
            if k >= primes.len() || primes[k] as i64 != n as i64 {
                bad = Some((n, primes.get(k).map(|&x| x as i64).unwrap_or(-1)));
                break;
            }
            k += 1;
        }
    }
    rep.count("giant_primes_compared", k as u64);
    if bad.is_none() && k != primes.len() {
        bad = Some((limit, primes[k] as i64));
    }
    if let Some((n, got)) = bad {
        add("giant:primes", n, Json::obj().set("what", "primes() of a giant sieve differs from the reference list").set("position", k).set("got", got).set("reference_count", k).set("library_count", primes.len()));
    }
    // factorize and exact min_prime on the structured numbers, against trial division
    let nums = giant_numbers(limit, seed);
    let mut st = FactorStats::default();
    let mut checked = 0u64;
    for &n in &nums {
        let want = td_factor(n as u64);
        let r = catch(|| {
            let mut got: Vec<(i64, i64)> = Vec::new();
            let mut it = lib!(sieve.factorize(n as i32));
            while let Some(x) = lib!(it.next()) {
                got.push((x.0 as i64, x.1 as i64));
                if got.len() > 64 {
                    break;
                }
            }
            (got, lib!(sieve.min_prime(n as i32)) as i64)
        });
        checked += 1;
        match r {
            Ok((got, mp)) => {
                let w: Vec<(i64, i64)> = want.iter().map(|x| (x.0 as i64, x.1 as i64)).collect();
                st.max_distinct = st.max_distinct.max(w.len() as i64);
                st.max_exponent = st.max_exponent.max(w.iter().map(|x| x.1).max().unwrap_or(0));
                if got != w {
                    add("giant:factorize", n, Json::obj().set("what", "factorize(n) on a giant sieve differs from trial division").set("got", pairs_json(&got)).set("want", pairs_json(&w)));
                }
                if mp != w[0].0 {
                    add("giant:min_prime", n, Json::obj().set("what", "min_prime(n) on a giant sieve is not the least prime factor").set("got", mp).set("want", w[0].0));
                }
            }
            Err(p) => {
                if p.in_lib {
                    add("panic:giant_factorize", n, Json::obj().set("what", "factorize(n) panicked for an n within the limit").set("panic", p.msg.as_str()).set("at", format!("{}:{}", p.file, p.line)));
                } else {
                    rep.inconclusive(format!("harness panic at {}:{}: {}", p.file, p.line, p.msg));
                    return;
                }
            }
        }
    }
    rep.count("giant_factorizations_checked_against_trial_division", checked);
    rep.max("max_exponent_seen", st.max_exponent);
    rep.max("max_distinct_prime_factors_seen", st.max_distinct);
}

fn main() {
    let eng = Engine::start("sievemon");
    let a = &eng.args;
    let mode = a.str("mode", "all");
    if !["all", "every_limit", "adjacent", "large", "blocks", "giant"].contains(&mode.as_str()) {
        panic!("unknown mode {}", mode);
    }
    let thorough = a.thorough();
    let seed = a.seed();
    let threads = a.threads();
    let mut report = Report::new();
    report.sample_cap = 10;
    report.extra("mode", mode.as_str());
    report.extra("nontrivial_rule", "limit N >= 4 (the table contains a composite, so the sieve's inner loop has written an entry)");
    let findings = Findings::new();

    // ---- replay of one limit
    if let Some(case) = a.opt("case") {
        let limit: usize = match case.trim().parse() {
            Ok(n) if n <= CASE_MAX => n,
            _ => {
                report.inconclusive(format!("--case expects a limit N in 0..={}, got '{}'", CASE_MAX, case));
                eng.finish(report);
            }
        };
        let (sub, trial): (&'static str, bool) = match mode.as_str() {
            "every_limit" => ("every_limit", limit <= 2_000_000),
            "adjacent" => ("adjacent", false),
            "large" => ("large", false),
            "blocks" => ("blocks", false),
            _ => {
                if limit <= EVERY_T {
                    ("every_limit", true)
                } else {
                    ("large", false)
                }
            }
        };
        let truth = if trial { truth_trial(limit + 2) } else { truth_sieve(limit + 2) };
        self_check(&truth, seed, &mut report);
        let cx = Cx { truth: &truth, sub, findings: &findings, verbose: true };
        check_limit(limit, &cx, true, &mut report);
        findings.flush(&mut report);
        eng.finish(report);
    }

    let run_every = mode == "all" || mode == "every_limit";
    let run_adj = mode == "all" || mode == "adjacent";
    let run_large = mode == "all" || mode == "large";
    let run_blocks = mode == "all" || mode == "blocks";
    let mut subruns: Vec<Json> = Vec::new();

    // ---- every limit up to a few thousand, against trial division
    if run_every {
        let max = (a.u64("every-max", if thorough { EVERY_T } else { EVERY_Q } as u64) as usize).min(2_000_000);
        let truth = truth_trial(max + 2);
        self_check(&truth, seed, &mut report);
        cross_check(&truth, &truth_sieve(max + 2), &mut report);
        let q = WorkQueue::new(max as u64 + 1);
        let cx = Cx { truth: &truth, sub: "every_limit", findings: &findings, verbose: false };
        let rep = common::run_sharded(threads, |_shard, rep| {
            // largest limits first (cost is proportional to N)
            while let Some((lo, hi)) = q.take_block(8) {
                for idx in lo..hi {
                    let limit = max - idx as usize;
                    let sample = limit == 0 || limit == 1 || limit == 360 || limit == max;
                    check_limit(limit, &cx, sample, rep);
                }
            }
        });
        report.merge(rep);
        subruns.push(
            Json::obj()
                .set("name", "every_limit")
                .set("exhaustive", true)
                .set("limits", format!("every N in 0..={}, every table entry of every limit", max))
                .set("oracle", truth.oracle),
        );
    }

    // ---- shared bit-sieve reference for the larger scales
    if run_adj || run_large || run_blocks {
        let adj_max = {
            let p = (2..ADJ_PRIME_BOUND).rev().find(|&x| td_is_prime(x as u32)).unwrap();
            p * p + 1
        };
        // (2^24 + 434 lies just beyond 24 bits: a table that packs the least prime factor into a narrower field than the
        // limit needs shows there; the first primes above 2^24 are 16777259 and 16777289)
        // (odd limits just above 2^24 / 2^25 are not representable in single precision: 2^24 + 1 = 97 * 257 * 673 and
        // 2^24 + 5 = 3 * 5592407 are composite last entries)
        let larges: Vec<usize> = if thorough { vec![1_000_000, 10_000_000, (1 << 24) + 1, (1 << 24) + 5, (1 << 24) + 434, (1 << 25) + 77, (1 << 26) + 31] } else { vec![1_000_000, (1 << 24) + 1, (1 << 24) + 434, (1 << 25) + 77] };
        // the checked build is several times slower: it keeps the limits up to 10^6
        let larges: Vec<usize> = if cfg!(debug_assertions) { larges.into_iter().filter(|&l| l <= 1_000_000).collect() } else { larges };
        let mut tmax = 0;
        if run_adj {
            tmax = tmax.max(adj_max);
        }
        if run_large {
            tmax = tmax.max(*larges.last().unwrap());
        }
        // limits that are exact multiples of plausible block / segment sizes (a blocked sieve has its last block edge there)
        let mut block_limits: Vec<usize> = Vec::new();
        if run_blocks {
            let kmax = if thorough { 1024 } else { 256 };
            for k in 1..=kmax {
                block_limits.push(k * 1024);
                block_limits.push(k * 4096);
                if k <= 100 {
                    block_limits.push(k * 1000);
                    block_limits.push(k * 10_000);
                }
            }
            block_limits.sort_unstable();
            block_limits.dedup();
            block_limits.reverse();
            tmax = tmax.max(block_limits[0]);
        }
        let truth = truth_sieve(tmax + 2);
        self_check(&truth, seed, &mut report);

        if run_adj {
            let small: Vec<u32> = truth.primes.iter().cloned().take_while(|&p| (p as usize) < ADJ_PRIME_BOUND).collect();
            let count = a.u64("adjacent-limits", if thorough { 2000 } else { 200 }) as usize;
            let limits = adjacent_limits(seed, count, &small);
            let q = WorkQueue::new(limits.len() as u64);
            let cx = Cx { truth: &truth, sub: "adjacent", findings: &findings, verbose: false };
            let limits_ref = &limits;
            let rep = common::run_sharded(threads, |_shard, rep| {
                while let Some(idx) = q.take() {
                    check_limit(limits_ref[idx as usize], &cx, idx == 0, rep);
                }
            });
            report.merge(rep);
            subruns.push(
                Json::obj()
                    .set("name", "adjacent")
                    .set("exhaustive", false)
                    .set(
                        "limits",
                        format!(
                            "{} distinct limits from {{p, p*p, p*q}} + {{-1, 0, +1}}, p, q primes < {}, seed-dependent; every table entry of each",
                            limits.len(),
                            ADJ_PRIME_BOUND
                        ),
                    )
                    .set("smallest_limit", limits.last().cloned())
                    .set("largest_limit", limits.first().cloned())
                    .set("oracle", truth.oracle),
            );
        }

        if run_blocks {
            let q = WorkQueue::new(block_limits.len() as u64);
            let cx = Cx { truth: &truth, sub: "blocks", findings: &findings, verbose: false };
            let limits_ref = &block_limits;
            let rep = common::run_sharded(threads, |_shard, rep| {
                while let Some(idx) = q.take() {
                    check_limit(limits_ref[idx as usize], &cx, false, rep);
                }
            });
            report.merge(rep);
            subruns.push(
                Json::obj()
                    .set("name", "blocks")
                    .set("exhaustive", false)
                    .set("limits", format!("{} limits k*1024, k*4096, k*1000, k*10000 (exact multiples of plausible block sizes); every table entry of each", block_limits.len()))
                    .set("largest_limit", block_limits.first().cloned())
                    .set("oracle", truth.oracle),
            );
        }

        if run_large {
            let q = WorkQueue::new(larges.len() as u64);
            let cx = Cx { truth: &truth, sub: "large", findings: &findings, verbose: false };
            let larges_ref = &larges;
            let rep = common::run_sharded(threads.min(larges.len()), |_shard, rep| {
                while let Some(idx) = q.take() {
                    // largest first
                    check_limit(larges_ref[larges_ref.len() - 1 - idx as usize], &cx, true, rep);
                }
            });
            report.merge(rep);
            subruns.push(
                Json::obj()
                    .set("name", "large")
                    .set("exhaustive", false)
                    .set("limits", Json::from(larges.clone()))
                    .set("entries", "every min_prime / is_prime / primes entry and factorize(n) for every n <= N")
                    .set("oracle", truth.oracle),
            );
        }
    }

    // ---- giant limits (optimised build only: the table alone is above a gigabyte)
    if (mode == "all" || mode == "giant") && !cfg!(debug_assertions) {
        let giants: Vec<usize> = match a.opt("giant-limit") {
            Some(l) => vec![l.parse().expect("--giant-limit")],
            None => {
                if thorough {
                    vec![223_092_870 + 641, (1 << 28) + 57]
                } else {
                    vec![223_092_870 + 641]
                }
            }
        };
        let q = WorkQueue::new(giants.len() as u64);
        let giants_ref = &giants;
        let findings_ref = &findings;
        let rep = common::run_sharded(threads.min(giants.len()), |_shard, rep| {
            while let Some(idx) = q.take() {
                check_giant(giants_ref[idx as usize], seed, findings_ref, rep);
            }
        });
        report.merge(rep);
        subruns.push(
            Json::obj()
                .set("name", "giant")
                .set("exhaustive", false)
                .set("limits", Json::from(giants.clone()))
                .set("entries", "is_prime and the whole prime list against a bit sieve, min_prime(n) a prime divisor of n (and n itself exactly for primes) for every n; factorize and exact min_prime against trial division on prime powers, square-free products of the first 13 primes, smooth numbers, semiprimes near the square root, both table ends, neighbourhoods of powers of two and 40000 random n")
                .set("oracle", "bit sieve of Eratosthenes + trial division"),
        );
    }

    // the every_limit sub-run enumerates its whole scope; the other sub-runs are selected limits
    report.extra("exhaustive", run_every);
    report.extra("subruns", Json::Arr(subruns));
    findings.flush(&mut report);
    eng.finish(report);
}
