//! writemon - runtime monitor for the buffered writer (C09): the sink receives exactly the formatted bytes, in
//! order, whatever the piece sizes, the fill level of the internal buffer and the way the sink accepts writes;
//! the produced text reads back through `Reader` to the original values.
//!
//! Modes (`--mode`, default `all` = every mode below; `u32sweep` only in the thorough tier):
//!   integers   typed sweeps: every value of the 8/16-bit types, boundary values (10^k, 2^k, +-1, negations, MIN/MAX
//!              neighbourhood) and random values of the wider types
//!   fill       fill-level targeting: buffer filled to BUF-k, then one piece of each kind, flush, compare
//!   strings    strings of length 0, 1, BUF-1, BUF, BUF+1, 2BUF, 3BUF+7 ... as &str / String on several pre-fill levels
//!   compound   tuples (arity 2..=8, mixed types), vectors (empty/1/many), nested, out!/outln! macros
//!   random     long random sequences (50-400 pieces, up to ~5 BUF bytes) against hostile sinks
//!   lifecycle  drop without flush, flush on empty writer, double flush, ...
//!   u32sweep   every u32 value (chunks of 2^16)
//! Monitors: (1) after flush()/drop: sink == expected; (2) after every write: sink is a prefix of expected;
//! (3) after every write: sink.len() + verif_pending() == expected.len().
//! Replay: --mode <m> --case <seed>/<id>

use common::{catch, hash_str, lib, mix, show_bytes, Engine, Json, Report, Rng, WorkQueue};
#[allow(unused_imports)]
use rlib_io::make_output_macro_;
use rlib_io::{Readable, Reader, Writable, Writer};
use std::cell::{Cell, RefCell};
use std::collections::VecDeque;
use std::fmt::{Debug, Display};
use std::io::{self, Read, Write};
use std::mem::ManuallyDrop;
use std::rc::Rc;

const PROFILE: &str = if cfg!(debug_assertions) { "dev" } else { "release" };

// ------------------------------------------------------------------------------------------------
// Sink under harness control

#[derive(Clone, Debug)]
enum Ins {
    /// accept k bytes (clipped to 1..=offered)
    Accept(usize),
    /// accept everything but the last k bytes (at least 1)
    AllBut(usize),
    Interrupt,
}

#[derive(Clone, Debug)]
enum Policy {
    All,
    AtMost(usize),
    Random { seed: u64, intr_pct: u64 },
}

#[derive(Clone, Debug)]
struct SinkSpec {
    schedule: Vec<Ins>,
    policy: Policy,
}

impl SinkSpec {
    fn to_json(&self) -> Json {
        let sched: Vec<String> = self.schedule.iter().take(32).map(|i| format!("{:?}", i)).collect();
        Json::obj()
            .set("schedule_len", self.schedule.len())
            .set("schedule_head", Json::from(sched))
            .set("then_policy", format!("{:?}", self.policy))
    }
}

// per-thread reuse of the large byte buffers (expected stream, sink contents): the sweeps run hundreds of
// thousands of cases and would otherwise spend their time in page faults
thread_local! {
    static BYTE_POOL: RefCell<Vec<Vec<u8>>> = RefCell::new(Vec::new());
    static IDX_POOL: RefCell<Vec<Vec<usize>>> = RefCell::new(Vec::new());
}
fn pool_take() -> Vec<u8> {
    BYTE_POOL.with(|p| p.borrow_mut().pop()).unwrap_or_default()
}
fn pool_give(mut v: Vec<u8>) {
    v.clear();
    BYTE_POOL.with(|p| {
        let mut p = p.borrow_mut();
        if p.len() < 8 && v.capacity() <= (8 << 20) {
            p.push(v);
        }
    });
}

#[derive(Default)]
struct SinkState {
    data: Vec<u8>,
    calls: u64,
    full: u64,
    partial: u64,
    interrupted: u64,
    flush_calls: u64,
    vectored_calls: u64,
    /// (offered, accepted) ; accepted = -1 for Interrupted
    log: Vec<(usize, i64)>,
}

impl SinkState {
    fn new() -> Self {
        let mut s = SinkState::default();
        s.data = pool_take();
        s
    }
}
impl Drop for SinkState {
    fn drop(&mut self) {
        pool_give(std::mem::take(&mut self.data));
    }
}

struct ScriptedWrite {
    sched: VecDeque<Ins>,
    policy: Policy,
    rng: Rng,
    consecutive_intr: u32,
    buf_size: usize,
    st: Rc<RefCell<SinkState>>,
}

impl ScriptedWrite {
    fn new(spec: &SinkSpec, st: Rc<RefCell<SinkState>>, buf_size: usize) -> Self {
        let seed = match spec.policy {
            Policy::Random { seed, .. } => seed,
            _ => 0,
        };
        ScriptedWrite {
            sched: spec.schedule.iter().cloned().collect(),
            policy: spec.policy.clone(),
            rng: Rng::new(seed),
            consecutive_intr: 0,
            buf_size,
            st,
        }
    }
}

thread_local! {
    /// set while a case runs whose sink is "re-entrant": while it handles a call, the sink renders integers with another
    /// Writer of the same thread (a framing / logging / tee adapter that prints a length header does exactly that)
    static REENTRANT_SINK: Cell<bool> = Cell::new(false);
    static REENTRANT_SINK_ERRORS: Cell<u64> = Cell::new(0);
    static REENTRANT_SINK_CALLS: Cell<u64> = Cell::new(0);
}

struct InnerSink(Rc<RefCell<Vec<u8>>>);
impl Write for InnerSink {
    fn write(&mut self, buf: &[u8]) -> io::Result<usize> {
        self.0.borrow_mut().extend_from_slice(buf);
        Ok(buf.len())
    }
    fn flush(&mut self) -> io::Result<()> {
        Ok(())
    }
}

fn reentrant_sink_work(len: usize) {
    let out = Rc::new(RefCell::new(Vec::new()));
    {
        let mut w = Writer::new(Box::new(InnerSink(out.clone())));
        w.write(&(len as u64));
        w.write_char(' ');
        w.write(&-8_876_543_210_123_456_789i64);
        w.write_char(' ');
        w.write(&(u128::MAX - len as u128));
        w.flush();
    }
    let want = format!("{} {} {}", len as u64, -8_876_543_210_123_456_789i64, u128::MAX - len as u128);
    REENTRANT_SINK_CALLS.with(|c| c.set(c.get() + 1));
    if out.borrow().as_slice() != want.as_bytes() {
        REENTRANT_SINK_ERRORS.with(|c| c.set(c.get() + 1));
    }
}

impl Write for ScriptedWrite {
    fn write(&mut self, buf: &[u8]) -> io::Result<usize> {
        if REENTRANT_SINK.with(|c| c.get()) {
            reentrant_sink_work(buf.len());
        }
        let mut st = self.st.borrow_mut();
        st.calls += 1;
        if buf.is_empty() {
            return Ok(0);
        }
        let len = buf.len();
        let ins = match self.sched.pop_front() {
            Some(i) => i,
            None => match self.policy {
                Policy::All => Ins::Accept(usize::MAX),
                Policy::AtMost(m) => Ins::Accept(m),
                Policy::Random { intr_pct, .. } => {
                    if self.consecutive_intr < 5 && self.rng.below(100) < intr_pct {
                        Ins::Interrupt
                    } else {
                        match self.rng.below(8) {
                            0 | 1 => Ins::Accept(1),
                            2 => Ins::Accept(7),
                            3 => Ins::Accept(self.buf_size / 3),
                            4 => Ins::Accept(1 + self.rng.usize_below(len)),
                            5 => Ins::AllBut(1),
                            _ => Ins::Accept(usize::MAX),
                        }
                    }
                }
            },
        };
        let n = match ins {
            Ins::Interrupt => {
                self.consecutive_intr += 1;
                st.interrupted += 1;
                if st.log.len() < 48 {
                    st.log.push((len, -1));
                }
                return Err(io::ErrorKind::Interrupted.into());
            }
            Ins::Accept(k) => k.max(1).min(len),
            Ins::AllBut(k) => len.saturating_sub(k).max(1),
        };
        self.consecutive_intr = 0;
        if n == len {
            st.full += 1;
        } else {
            st.partial += 1;
        }
        if st.log.len() < 48 {
            st.log.push((len, n as i64));
        }
        st.data.extend_from_slice(&buf[..n]);
        Ok(n)
    }
    /// a native vectored write: the slices are one logical run of bytes, and the scripted acceptance (which may end in
    /// the middle of any slice) applies to the run as a whole - what a pipe or socket does with writev
    fn write_vectored(&mut self, bufs: &[io::IoSlice<'_>]) -> io::Result<usize> {
        let joined: Vec<u8> = bufs.iter().flat_map(|b| b.iter().cloned()).collect();
        self.st.borrow_mut().vectored_calls += 1;
        self.write(&joined)
    }
    fn flush(&mut self) -> io::Result<()> {
        self.st.borrow_mut().flush_calls += 1;
        Ok(())
    }
}

/// sink variants; 0, 2, 3, 6, 7 are "light" (few calls per flushed buffer), 1, 4, 5 can take one call per byte
fn sink_variant(sv: u64, seed: u64, buf: usize) -> SinkSpec {
    use Ins::*;
    let mut rng = Rng::new(mix(&[seed, 0x51C, sv]));
    match sv % 8 {
        0 => SinkSpec { schedule: vec![], policy: Policy::All },
        1 => SinkSpec { schedule: vec![Interrupt, Accept(1), Interrupt, Interrupt, Accept(3), AllBut(1)], policy: Policy::AtMost(7) },
        2 => SinkSpec { schedule: vec![], policy: Policy::Random { seed: rng.next_u64(), intr_pct: 50 } },
        3 => SinkSpec { schedule: vec![AllBut(1), Interrupt], policy: Policy::AtMost(buf / 3) },
        4 => {
            let n = rng.usize_below(21);
            let mut schedule = Vec::new();
            // every fourth schedule of this variant starts, after a first partial accept, with a long burst of back-to-back
            // interruptions (a retry loop with a cap gives up there; the sink accepts everything afterwards)
            if seed % 4 == 1 {
                schedule.push(Accept(3));
                let burst = *rng.pick(&[99usize, 100, 101, 128, 255, 256, 257, 1000, 1024, 65_536]);
                schedule.extend(std::iter::repeat(Interrupt).take(burst));
                schedule.push(Accept(1));
                schedule.extend(std::iter::repeat(Interrupt).take(burst / 2 + 1));
            }
            for _ in 0..n {
                schedule.push(match rng.below(5) {
                    0 => Interrupt,
                    1 => Accept(1),
                    2 => Accept(7),
                    3 => AllBut(1 + rng.usize_below(3)),
                    _ => Accept(1 + rng.usize_below(200)),
                });
            }
            SinkSpec { schedule, policy: Policy::Random { seed: rng.next_u64(), intr_pct: rng.below(51) } }
        }
        5 => SinkSpec { schedule: vec![], policy: Policy::AtMost(1) },
        6 => SinkSpec { schedule: vec![AllBut(1), Interrupt, Accept(1), AllBut(2)], policy: Policy::All },
        _ => SinkSpec { schedule: vec![], policy: Policy::Random { seed: rng.next_u64(), intr_pct: 10 } },
    }
}

const LIGHT_SVS: [u64; 5] = [0, 3, 6, 7, 2];

// ------------------------------------------------------------------------------------------------
// Source for the round trip: random chunk sizes, no errors, Ok(0) only at the end of the data

struct ScriptedRead {
    data: Vec<u8>,
    pos: usize,
    rng: Rng,
    style: u64,
}

impl ScriptedRead {
    fn new(data: Vec<u8>, seed: u64) -> Self {
        let mut rng = Rng::new(seed);
        let style = rng.below(5);
        ScriptedRead { data, pos: 0, rng, style }
    }
}

impl Drop for ScriptedRead {
    fn drop(&mut self) {
        pool_give(std::mem::take(&mut self.data));
    }
}

impl Read for ScriptedRead {
    fn read(&mut self, buf: &mut [u8]) -> io::Result<usize> {
        let rem = self.data.len() - self.pos;
        if rem == 0 || buf.is_empty() {
            return Ok(0);
        }
        let want = match self.style {
            0 => usize::MAX,
            1 => 1,
            2 => 1 + self.rng.usize_below(16),
            3 => match self.rng.below(4) {
                0 => 1,
                1 => 1 + self.rng.usize_below(1000),
                2 => buf.len() / 3 + 1,
                _ => usize::MAX,
            },
            _ => 1 + self.rng.usize_below(5000),
        };
        let n = want.min(rem).min(buf.len());
        buf[..n].copy_from_slice(&self.data[self.pos..self.pos + n]);
        self.pos += n;
        Ok(n)
    }
}

// ------------------------------------------------------------------------------------------------
// Monitors

struct Bad {
    kind: &'static str,
    when: String,
    step: usize,
    pending: usize,
}

struct Monitor {
    buf: usize,
    exp: Vec<u8>,
    /// offset in `exp` at which action i starts
    starts: Vec<usize>,
    st: Rc<RefCell<SinkState>>,
    verified: usize,
    writes: u64,
    flushes: u64,
    fpw: u64,
    nonempty_writes: u64,
    fill_exact: [bool; 65],
    fill_bucket: [bool; 40],
    internal_flush: bool,
    calls_before: u64,
}

fn common_prefix(a: &[u8], b: &[u8], from: usize) -> usize {
    let n = a.len().min(b.len());
    let mut i = from.min(n);
    while i < n && a[i] == b[i] {
        i += 1;
    }
    i
}

impl Monitor {
    fn new(buf: usize, st: Rc<RefCell<SinkState>>) -> Self {
        Monitor {
            buf,
            exp: pool_take(),
            starts: IDX_POOL.with(|p| p.borrow_mut().pop()).unwrap_or_default(),
            st,
            verified: 0,
            writes: 0,
            flushes: 0,
            fpw: 0,
            nonempty_writes: 0,
            fill_exact: [false; 65],
            fill_bucket: [false; 40],
            internal_flush: false,
            calls_before: 0,
        }
    }
    /// before an action; `pending` read through the hook
    fn begin(&mut self, pending: usize, is_write: bool) {
        self.starts.push(self.exp.len());
        if is_write {
            let free = self.buf.saturating_sub(pending);
            if free <= 64 {
                self.fill_exact[free] = true;
            } else {
                self.fill_bucket[(usize::BITS - 1 - free.leading_zeros()) as usize] = true;
            }
        }
        self.calls_before = self.st.borrow().calls;
    }
    fn check_prefix(&mut self) -> bool {
        let st = self.st.borrow();
        let n = st.data.len();
        if n > self.exp.len() || st.data[self.verified..n] != self.exp[self.verified..n] {
            return false;
        }
        self.verified = n;
        true
    }
    /// after a write / write_char / out!: monitors (2) and (3); `calls` = number of public write calls made
    fn post_write(&mut self, pending: usize, calls: u64) -> Result<(), Bad> {
        self.writes += calls;
        let step = self.starts.len() - 1;
        let (n, sink_calls) = {
            let st = self.st.borrow();
            (st.data.len(), st.calls)
        };
        if sink_calls > self.calls_before {
            self.internal_flush = true;
        }
        if !self.check_prefix() {
            return Err(Bad { kind: "prefix_violation", when: format!("after write #{}", step), step, pending });
        }
        if n + pending != self.exp.len() {
            return Err(Bad { kind: "conservation", when: format!("after write #{}", step), step, pending });
        }
        if self.exp.len() > self.starts[step] {
            self.nonempty_writes += 1;
            if pending == 0 {
                self.fpw += 1;
            }
        }
        Ok(())
    }
    /// after flush() / drop: monitor (1)
    fn post_flush(&mut self, pending: usize, what: &str) -> Result<(), Bad> {
        let step = self.starts.len() - 1;
        let n = self.st.borrow().data.len();
        if !self.check_prefix() || n != self.exp.len() {
            return Err(Bad { kind: "final_mismatch", when: format!("after {} (action #{})", what, step), step, pending });
        }
        if pending != 0 {
            return Err(Bad { kind: "conservation", when: format!("after {} (action #{}): bytes still pending although the sink is complete", what, step), step, pending });
        }
        Ok(())
    }
    fn piece_at(&self, offset: usize) -> usize {
        self.starts.partition_point(|&s| s <= offset).saturating_sub(1)
    }
    fn flush_counters(&self, rep: &mut Report) {
        rep.count("writes", self.writes);
        rep.count("flushes", self.flushes);
        rep.count("flush_per_write_observed", self.fpw);
        rep.count("nonempty_write_actions", self.nonempty_writes);
        rep.count("bytes_expected", self.exp.len() as u64);
        rep.max("max_case_bytes", self.exp.len() as i64);
        rep.max("max_case_actions", self.starts.len() as i64);
        for (k, &b) in self.fill_exact.iter().enumerate() {
            if b {
                rep.see("fill_levels_at_write_start", k as u64);
            }
        }
        for (k, &b) in self.fill_bucket.iter().enumerate() {
            if b {
                rep.see("fill_levels_at_write_start", 1000 + k as u64);
            }
        }
        let st = self.st.borrow();
        rep.count("sink_calls", st.calls);
        rep.count("partial_accepts", st.partial);
        rep.count("interrupted_calls", st.interrupted);
        if st.full > 0 {
            rep.see_str("sink_behaviours", "full");
        }
        if st.partial > 0 {
            rep.see_str("sink_behaviours", "partial");
        }
        if st.interrupted > 0 {
            rep.see_str("sink_behaviours", "interrupted");
        }
    }
    /// rule: an internal flush happened in the middle of the sequence and the sink was not perfectly cooperative
    fn nontrivial(&self) -> bool {
        let st = self.st.borrow();
        self.internal_flush && (st.partial > 0 || st.interrupted > 0)
    }
}

impl Drop for Monitor {
    fn drop(&mut self) {
        pool_give(std::mem::take(&mut self.exp));
        let mut st = std::mem::take(&mut self.starts);
        st.clear();
        IDX_POOL.with(|p| {
            let mut p = p.borrow_mut();
            if p.len() < 4 && st.capacity() <= (1 << 20) {
                p.push(st);
            }
        });
    }
}

fn excerpt(b: &[u8], d: usize) -> String {
    let lo = d.saturating_sub(24).min(b.len());
    let hi = (d + 40).min(b.len());
    show_bytes(&b[lo..hi])
}

fn diagnose(got: &[u8], want: &[u8], d: usize) -> String {
    if got.len() < want.len() {
        let l = want.len() - got.len();
        if d == got.len() {
            return format!("lost: the sink content is a proper prefix of the expected stream, the last {} bytes are missing", l);
        }
        if got[d..] == want[d + l..] {
            return format!("lost: {} contiguous bytes starting at offset {} are missing, the rest follows in order", l, d);
        }
        return format!("undetermined (sink is {} bytes short and differs from offset {})", l, d);
    }
    if got.len() > want.len() {
        let l = got.len() - want.len();
        if d + l <= got.len() && got[d + l..] == want[d..] {
            if d >= l && got[d..d + l] == want[d - l..d] {
                return format!("duplicated: the {} bytes before offset {} were delivered twice", l, d);
            }
            return format!("inserted: {} bytes at offset {} that do not belong there, the rest follows in order", l, d);
        }
        if d == want.len() {
            return format!("extra: {} bytes beyond the end of the expected stream", l);
        }
        return format!("undetermined (sink is {} bytes too long and differs from offset {})", l, d);
    }
    if d == got.len() {
        return "equal".into();
    }
    let mut hg = [0u64; 256];
    let mut hw = [0u64; 256];
    for &b in &got[d..] {
        hg[b as usize] += 1;
    }
    for &b in &want[d..] {
        hw[b as usize] += 1;
    }
    if hg == hw {
        format!("reordered: same length and same multiset of bytes, order differs from offset {}", d)
    } else {
        format!("corrupted: same length, different bytes from offset {}", d)
    }
}

/// builds the witness of a failed monitor
fn bad_detail(bad: &Bad, mon: &Monitor, sink: &SinkSpec, npieces: usize, describe: &dyn Fn(usize) -> String) -> (Json, usize) {
    let st = mon.st.borrow();
    let got = &st.data;
    let want = &mon.exp;
    let d = common_prefix(got, want, 0);
    let conservation = bad.kind == "conservation";
    // conservation is checked after every action, so the action at which it fails is the culprit; the other
    // monitors are located through the first differing offset
    let pidx = if conservation { bad.step } else { mon.piece_at(d.min(want.len().saturating_sub(1))) };
    let diagnosis = if conservation {
        let have = got.len() + bad.pending;
        format!(
            "sink {} + pending {} = {} but {} bytes have been written so far: {} bytes {} during action #{} (the equation held after the previous action){}",
            got.len(),
            bad.pending,
            have,
            want.len(),
            have.abs_diff(want.len()),
            if have < want.len() { "lost" } else { "too many (duplicated or invented)" },
            bad.step,
            if d < got.len() { format!("; in addition the sink differs from the expected stream at offset {}", d) } else { String::new() }
        )
    } else {
        diagnose(got, want, d)
    };
    let head: Vec<String> = (0..npieces.min(8)).map(|i| format!("#{} {}", i, describe(i))).collect();
    let lo = pidx.saturating_sub(2);
    let hi = (pidx + 3).min(npieces);
    let near: Vec<String> = (lo..hi).map(|i| format!("#{} {}", i, describe(i))).collect();
    let log: Vec<String> = st.log.iter().map(|&(o, a)| if a < 0 { format!("{}->Interrupted", o) } else { format!("{}->{}", o, a) }).collect();
    let j = Json::obj()
        .set("profile", PROFILE)
        .set("monitor", bad.kind)
        .set("when", bad.when.as_str())
        .set("detected_at_action", bad.step)
        .set("buf_size", mon.buf)
        .set("pieces_total", npieces)
        .set("pieces_head", Json::from(head))
        .set("pieces_near_difference", Json::from(near))
        .set("sink_len", got.len())
        .set("pending_reported_by_hook", bad.pending)
        .set("expected_len", want.len())
        .set(if conservation { "sink_equals_expected_up_to" } else { "first_differing_offset" }, d)
        .set(if conservation { "culprit_action_index" } else { "piece_index_at_offset" }, pidx)
        .set("piece_start_offset", mon.starts.get(pidx).cloned().unwrap_or(0))
        .set("got_excerpt", excerpt(got, d))
        .set("want_excerpt", excerpt(want, d))
        .set("diagnosis", diagnosis)
        .set("sink", sink.to_json())
        .set("sink_calls", st.calls)
        .set("sink_calls_log_head", Json::from(log));
    (j, pidx)
}

// ------------------------------------------------------------------------------------------------
// Oracle rendering (independent of the library): std Display for integers, verbatim strings, single spaces between
// the elements of vectors and tuples.

trait Ren {
    fn ren(&self, out: &mut Vec<u8>);
}

impl Ren for String {
    fn ren(&self, out: &mut Vec<u8>) {
        out.extend_from_slice(self.as_bytes());
    }
}

impl<T: Ren> Ren for Vec<T> {
    fn ren(&self, out: &mut Vec<u8>) {
        for (i, x) in self.iter().enumerate() {
            if i > 0 {
                out.push(b' ');
            }
            x.ren(out);
        }
    }
}

macro_rules! ren_tuple {
    ($($t:ident),*) => {
        impl<$($t: Ren),*> Ren for ($($t,)*) {
            #[allow(non_snake_case, unused_assignments)]
            fn ren(&self, out: &mut Vec<u8>) {
                let ($($t,)*) = self;
                let mut first = true;
                $(
                    if !first { out.push(b' '); }
                    first = false;
                    $t.ren(out);
                )*
            }
        }
    };
}
ren_tuple!(A, B);
ren_tuple!(A, B, C);
ren_tuple!(A, B, C, D);
ren_tuple!(A, B, C, D, E);
ren_tuple!(A, B, C, D, E, F);
ren_tuple!(A, B, C, D, E, F, G);
ren_tuple!(A, B, C, D, E, F, G, H);

// ------------------------------------------------------------------------------------------------
// Value generation

struct GenCx<'a> {
    rng: &'a mut Rng,
    /// round-trip compatible: strings are non-empty tokens without whitespace
    rt: bool,
    /// sequence number of the piece being generated (embedded in strings)
    seq: usize,
}

trait Gen {
    fn gen(g: &mut GenCx) -> Self;
}

trait IntT: Writable + Readable + Ren + Display + Debug + PartialEq + Copy + 'static {
    const NAME: &'static str;
    const BITS: u32;
    fn from_bits(raw: u128) -> Self;
    fn conv(neg: bool, mag: u128) -> Option<Self>;
}

fn rand128(rng: &mut Rng) -> u128 {
    ((rng.next_u64() as u128) << 64) | rng.next_u64() as u128
}

fn gen_int<T: IntT>(rng: &mut Rng) -> T {
    let top = 1u128 << (T::BITS - 1);
    if rng.chance(1, 12) {
        return T::from_bits(match rng.below(7) {
            0 => 0,
            1 => 1,
            2 => u128::MAX,
            3 => top,
            4 => top - 1,
            5 => top + 1,
            _ => u128::MAX - 1,
        });
    }
    let b = rng.below(T::BITS as u64 + 1) as u32;
    let mut raw = if b == 0 { 0 } else { rand128(rng) >> (128 - b) };
    if rng.chance(1, 6) {
        // digit-group structure: the low g decimal digits all nines / all zeros / one below a round value
        let g = 1 + rng.below(20) as u32;
        let pg = 10u128.pow(g);
        let h = raw / pg;
        let cand = match rng.below(3) {
            0 => h * pg + (pg - 1),
            1 => h * pg,
            _ => (h * pg).wrapping_sub(1),
        };
        let limit = if b == 0 { 0 } else { u128::MAX >> (128 - b) };
        if cand <= limit {
            raw = cand;
        }
    }
    if rng.chance(1, 2) {
        raw = raw.wrapping_neg();
    }
    T::from_bits(raw)
}

/// 10^k, 10^k+-1, 2^k, 2^k+-1, their negations, MIN, MIN+1, MAX, MAX-1, 0, +-1 - whatever fits the type
fn specials<T: IntT>() -> Vec<T> {
    let mut mags: Vec<u128> = vec![0, 1, 2, u128::MAX, u128::MAX - 1];
    let mut p = 1u128;
    for _ in 0..=38 {
        mags.extend_from_slice(&[p - 1, p, p + 1]);
        p = p.saturating_mul(10);
    }
    for k in 0..128 {
        let q = 1u128 << k;
        mags.extend_from_slice(&[q - 1, q, q.wrapping_add(1)]);
    }
    // digit-group boundaries: h * 10^g - 1 (g trailing nines), h * 10^g, h * 10^g + 1 with h anchored at the largest value
    // of every integer width (a renderer that cuts the value into groups of g digits has its carries exactly there)
    let maxes: Vec<u128> = [7u32, 8, 15, 16, 31, 32, 63, 64, 127].iter().map(|&b| (1u128 << b) - 1).chain([u128::MAX]).collect();
    for &mx in &maxes {
        let mut pg = 10u128;
        for _g in 1..=38 {
            let hmax = mx / pg;
            if hmax == 0 {
                break;
            }
            for h in [hmax, hmax.saturating_sub(1), hmax / 2 + 1, hmax / 3 + 1, 1, 7] {
                if h == 0 || h > hmax {
                    continue;
                }
                let v = h * pg;
                mags.extend_from_slice(&[v - 1, v, v.saturating_add(1), v.saturating_add(pg / 10 * 9)]);
                if let Some(w) = v.checked_add(pg - 1) {
                    if w <= mx {
                        mags.push(w); // the largest value with this h
                    }
                }
            }
            pg = match pg.checked_mul(10) {
                Some(x) => x,
                None => break,
            };
        }
    }
    mags.sort_unstable();
    mags.dedup();
    let mut out = Vec::new();
    for &m in &mags {
        for neg in [false, true] {
            if let Some(v) = T::conv(neg, m) {
                out.push(v);
            }
        }
    }
    let top = 1u128 << (T::BITS - 1);
    for raw in [top, top + 1, top - 1, top - 2, u128::MAX, u128::MAX - 1, 0, 1] {
        out.push(T::from_bits(raw));
    }
    out
}

macro_rules! int_impls {
    ($($t:ty),*) => {$(
        impl Ren for $t {
            fn ren(&self, out: &mut Vec<u8>) {
                write!(out, "{}", self).unwrap();
            }
        }
        impl IntT for $t {
            const NAME: &'static str = stringify!($t);
            const BITS: u32 = <$t>::BITS;
            fn from_bits(raw: u128) -> Self {
                raw as $t
            }
            fn conv(neg: bool, mag: u128) -> Option<Self> {
                if !neg {
                    <$t>::try_from(mag).ok()
                } else if mag == 0 {
                    Some(0)
                } else if mag <= (1u128 << 127) {
                    <$t>::try_from((mag as i128).wrapping_neg()).ok()
                } else {
                    None
                }
            }
        }
        impl Gen for $t {
            fn gen(g: &mut GenCx) -> Self {
                gen_int::<$t>(g.rng)
            }
        }
    )*};
}
int_impls!(i8, u8, i16, u16, i32, u32, i64, u64, i128, u128, isize, usize);

const INT_TYPES: [&str; 12] = ["i8", "u8", "i16", "u16", "i32", "u32", "i64", "u64", "i128", "u128", "isize", "usize"];

const ALPHA_RT: &[u8] = b"abcdefghijklmnopqrstuvwxyzABCDEFGHIJKLMNOPQRSTUVWXYZ0123456789.,-=_/!@#$%^&*()[]{}~+";
const ALPHA_ANY: &[u8] = b"abcdefghijklmnopqrstuvwxyzABCDEFGHIJKLMNOPQRSTUVWXYZ0123456789.,-=_/!@#$%^&*()[]{}~+      \n\t\"'\\`";

/// ASCII string of exactly `len` bytes: "<seq>:" then pseudo-random payload with position markers "<offset>"
/// every 64 bytes (so that a lost or repeated block is visible in an excerpt)
fn tagged(seq: usize, len: usize, rt: bool, rng: &mut Rng) -> String {
    let alpha = if rt { ALPHA_RT } else { ALPHA_ANY };
    let mut s: Vec<u8> = Vec::with_capacity(len + 24);
    s.extend_from_slice(format!("{}:", seq).as_bytes());
    let mut x = rng.next_u64() | 1;
    let mut next_marker = 64;
    while s.len() < len {
        if s.len() >= next_marker {
            s.extend_from_slice(format!("<{}>", s.len()).as_bytes());
            next_marker += 64;
            continue;
        }
        x = x.wrapping_mul(6364136223846793005).wrapping_add(1442695040888963407);
        s.push(alpha[((x >> 33) % alpha.len() as u64) as usize]);
    }
    s.truncate(len);
    String::from_utf8(s).unwrap()
}

impl Gen for String {
    fn gen(g: &mut GenCx) -> Self {
        let lo = if g.rt { 1 } else { 0 };
        if !g.rt && g.rng.chance(1, 7) {
            // an item that renders to no bytes at all (between two separators of a vector / tuple)
            return String::new();
        }
        let len = if g.rng.chance(1, 20) { g.rng.range_usize(15, 300) } else { g.rng.range_usize(lo, 14) };
        tagged(g.seq, len, g.rt, g.rng)
    }
}

fn gen_vec_len(rng: &mut Rng) -> usize {
    // one vector in a few thousand is longer than 2^16 elements (element-count thresholds, as opposed to byte thresholds)
    if rng.chance(1, 3000) {
        return *rng.pick(&[65_535usize, 65_536, 65_537, 70_001, 131_073]);
    }
    match rng.below(20) {
        0 | 1 => 0,
        2..=4 => 1,
        5..=13 => rng.range_usize(2, 8),
        14..=18 => rng.range_usize(9, 60),
        _ => rng.range_usize(61, 2000),
    }
}

impl<T: Gen> Gen for Vec<T> {
    fn gen(g: &mut GenCx) -> Self {
        let n = gen_vec_len(g.rng);
        (0..n).map(|_| T::gen(g)).collect()
    }
}

macro_rules! gen_tuple {
    ($($t:ident),*) => {
        impl<$($t: Gen),*> Gen for ($($t,)*) {
            fn gen(g: &mut GenCx) -> Self {
                ($($t::gen(g),)*)
            }
        }
    };
}
gen_tuple!(A, B);
gen_tuple!(A, B, C);
gen_tuple!(A, B, C, D);
gen_tuple!(A, B, C, D, E);
gen_tuple!(A, B, C, D, E, F);
gen_tuple!(A, B, C, D, E, F, G);
gen_tuple!(A, B, C, D, E, F, G, H);

// ------------------------------------------------------------------------------------------------
// Pieces

fn trunc(s: String, n: usize) -> String {
    if s.len() <= n {
        s
    } else {
        let mut cut = n;
        while !s.is_char_boundary(cut) {
            cut -= 1;
        }
        format!("{}...[{} bytes]", &s[..cut], s.len())
    }
}

thread_local! {
    /// set for single actions: the value goes in through the public trait method `Writable::write(&value, &mut writer)` (what
    /// a hand-written `Writable` impl of a wrapper type does for its fields) instead of through `writer.write(&value)`
    static VIA_TRAIT: Cell<bool> = Cell::new(false);
}

struct ViaTraitGuard;
impl ViaTraitGuard {
    fn set() -> Self {
        VIA_TRAIT.with(|c| c.set(true));
        ViaTraitGuard
    }
}
impl Drop for ViaTraitGuard {
    fn drop(&mut self) {
        VIA_TRAIT.with(|c| c.set(false));
    }
}

fn put<T: Writable>(w: &mut Writer, v: &T) {
    if VIA_TRAIT.with(|c| c.get()) {
        Writable::write(v, w)
    } else {
        w.write(v)
    }
}

trait PieceT {
    fn kind(&self) -> &'static str;
    /// oracle rendering
    fn render(&self, out: &mut Vec<u8>);
    /// one public `writer.write(&value)` call
    fn write_to(&self, w: &mut Writer);
    /// reads the value back with the same type; Ok(number of values) or Err(description)
    fn read_check(&self, r: &mut Reader) -> Result<u64, String>;
    fn describe(&self) -> String;
}

/// a value whose type is both Writable and Readable (integers, single-token strings, tuples of those)
struct Plain<T> {
    v: T,
    kind: &'static str,
}
impl<T: Writable + Readable + Ren + PartialEq + Debug> PieceT for Plain<T> {
    fn kind(&self) -> &'static str {
        self.kind
    }
    fn render(&self, out: &mut Vec<u8>) {
        self.v.ren(out);
    }
    fn write_to(&self, w: &mut Writer) {
        put(w, &self.v);
    }
    fn read_check(&self, r: &mut Reader) -> Result<u64, String> {
        let got: T = lib!(r.read::<T>());
        if got == self.v {
            Ok(1)
        } else {
            Err(format!("read back {} but wrote {}", trunc(format!("{:?}", got), 200), trunc(format!("{:?}", self.v), 200)))
        }
    }
    fn describe(&self) -> String {
        format!("{} {}", self.kind, trunc(format!("{:?}", self.v), 70))
    }
}

/// Vec<T>, read back through read_vec::<T>(len)
struct PVec<T> {
    v: Vec<T>,
    kind: &'static str,
}
impl<T: Writable + Readable + Ren + PartialEq + Debug> PieceT for PVec<T> {
    fn kind(&self) -> &'static str {
        self.kind
    }
    fn render(&self, out: &mut Vec<u8>) {
        self.v.ren(out);
    }
    fn write_to(&self, w: &mut Writer) {
        put(w, &self.v);
    }
    fn read_check(&self, r: &mut Reader) -> Result<u64, String> {
        let got: Vec<T> = lib!(r.read_vec::<T>(self.v.len()));
        if got == self.v {
            Ok(got.len() as u64)
        } else {
            let i = got.iter().zip(self.v.iter()).position(|(a, b)| a != b).unwrap_or(got.len().min(self.v.len()));
            Err(format!("read_vec({}) differs at element {}: read {} but wrote {}", self.v.len(), i, trunc(format!("{:?}", got.get(i)), 120), trunc(format!("{:?}", self.v.get(i)), 120)))
        }
    }
    fn describe(&self) -> String {
        format!("{} len {} {}", self.kind, self.v.len(), trunc(format!("{:?}", self.v), 70))
    }
}

fn read_tokens(s: &str, r: &mut Reader) -> Result<u64, String> {
    let mut n = 0;
    for tok in s.split_ascii_whitespace() {
        let got: String = lib!(r.read::<String>());
        if got != tok {
            let d = common_prefix(got.as_bytes(), tok.as_bytes(), 0);
            return Err(format!(
                "string token {}: read {} bytes, wrote {} bytes, first difference at byte {}: read ..{} wrote ..{}",
                n,
                got.len(),
                tok.len(),
                d,
                excerpt(got.as_bytes(), d),
                excerpt(tok.as_bytes(), d)
            ));
        }
        n += 1;
    }
    Ok(n)
}

/// written as `&str`; read back token by token
struct StrRef {
    s: String,
}
impl PieceT for StrRef {
    fn kind(&self) -> &'static str {
        "&str"
    }
    fn render(&self, out: &mut Vec<u8>) {
        out.extend_from_slice(self.s.as_bytes());
    }
    fn write_to(&self, w: &mut Writer) {
        let r: &str = self.s.as_str();
        put(w, &r);
    }
    fn read_check(&self, r: &mut Reader) -> Result<u64, String> {
        read_tokens(&self.s, r)
    }
    fn describe(&self) -> String {
        format!("&str len {} {}", self.s.len(), trunc(format!("{:?}", self.s), 50))
    }
}

/// written as `String`
struct StrOwned {
    s: String,
}
impl PieceT for StrOwned {
    fn kind(&self) -> &'static str {
        "String"
    }
    fn render(&self, out: &mut Vec<u8>) {
        out.extend_from_slice(self.s.as_bytes());
    }
    fn write_to(&self, w: &mut Writer) {
        put(w, &self.s);
    }
    fn read_check(&self, r: &mut Reader) -> Result<u64, String> {
        read_tokens(&self.s, r)
    }
    fn describe(&self) -> String {
        format!("String len {} {}", self.s.len(), trunc(format!("{:?}", self.s), 50))
    }
}

struct VecVec {
    v: Vec<Vec<i32>>,
}
impl PieceT for VecVec {
    fn kind(&self) -> &'static str {
        "Vec<Vec<i32>>"
    }
    fn render(&self, out: &mut Vec<u8>) {
        self.v.ren(out);
    }
    fn write_to(&self, w: &mut Writer) {
        put(w, &self.v);
    }
    fn read_check(&self, r: &mut Reader) -> Result<u64, String> {
        let mut n = 0;
        for (i, inner) in self.v.iter().enumerate() {
            let got: Vec<i32> = lib!(r.read_vec::<i32>(inner.len()));
            if &got != inner {
                return Err(format!("inner vector {}: read {} wrote {}", i, trunc(format!("{:?}", got), 120), trunc(format!("{:?}", inner), 120)));
            }
            n += got.len() as u64;
        }
        Ok(n)
    }
    fn describe(&self) -> String {
        format!("Vec<Vec<i32>> len {} {}", self.v.len(), trunc(format!("{:?}", self.v), 70))
    }
}

struct TupVec {
    v: (u8, Vec<i64>, String),
}
impl PieceT for TupVec {
    fn kind(&self) -> &'static str {
        "(u8,Vec<i64>,String)"
    }
    fn render(&self, out: &mut Vec<u8>) {
        self.v.ren(out);
    }
    fn write_to(&self, w: &mut Writer) {
        put(w, &self.v);
    }
    fn read_check(&self, r: &mut Reader) -> Result<u64, String> {
        let a: u8 = lib!(r.read::<u8>());
        let b: Vec<i64> = lib!(r.read_vec::<i64>(self.v.1.len()));
        let c: String = lib!(r.read::<String>());
        let got = (a, b, c);
        if got == self.v {
            Ok(2 + got.1.len() as u64)
        } else {
            Err(format!("read {} wrote {}", trunc(format!("{:?}", got), 160), trunc(format!("{:?}", self.v), 160)))
        }
    }
    fn describe(&self) -> String {
        format!("(u8,Vec<i64>,String) {}", trunc(format!("{:?}", self.v), 70))
    }
}

/// lets a dynamically chosen piece go through the `out!` / `outln!` macros (which need a `Writable` expression);
/// the inner call is the ordinary `writer.write(&value)` of the real type
struct Dyn<'p>(&'p dyn PieceT);
impl Writable for Dyn<'_> {
    fn write(&self, writer: &mut Writer) {
        self.0.write_to(writer);
    }
}

enum Action {
    W(Box<dyn PieceT>),
    Ch(u8),
    Flush,
    /// out!(..) / outln!(..) with 0..=4 arguments (0 only with ln)
    Out(Vec<Box<dyn PieceT>>, bool),
}

impl Action {
    fn describe(&self) -> String {
        match self {
            Action::W(p) => format!("write {}", p.describe()),
            Action::Ch(c) => format!("write_char {:?}", *c as char),
            Action::Flush => "flush()".into(),
            Action::Out(ps, ln) => format!("{}({})", if *ln { "outln!" } else { "out!" }, ps.iter().map(|p| p.describe()).collect::<Vec<_>>().join(", ")),
        }
    }
    fn render(&self, out: &mut Vec<u8>) {
        match self {
            Action::W(p) => p.render(out),
            Action::Ch(c) => out.push(*c),
            Action::Flush => {}
            Action::Out(ps, ln) => {
                for (j, p) in ps.iter().enumerate() {
                    if j > 0 {
                        out.push(b' ');
                    }
                    p.render(out);
                }
                if *ln {
                    out.push(b'\n');
                }
            }
        }
    }
}

type Maker = fn(&mut GenCx) -> Box<dyn PieceT>;

macro_rules! plain {
    ($t:ty, $k:expr) => {{
        fn m(g: &mut GenCx) -> Box<dyn PieceT> {
            Box::new(Plain::<$t> { v: <$t as Gen>::gen(g), kind: $k })
        }
        m as Maker
    }};
}
macro_rules! pvec {
    ($t:ty, $k:expr) => {{
        fn m(g: &mut GenCx) -> Box<dyn PieceT> {
            Box::new(PVec::<$t> { v: <Vec<$t> as Gen>::gen(g), kind: $k })
        }
        m as Maker
    }};
}

fn mk_str(g: &mut GenCx) -> Box<dyn PieceT> {
    let len = g.rng.range_usize(0, 24);
    Box::new(StrRef { s: tagged(g.seq, len, g.rt, g.rng) })
}
fn mk_string(g: &mut GenCx) -> Box<dyn PieceT> {
    let len = g.rng.range_usize(0, 24);
    Box::new(StrOwned { s: tagged(g.seq, len, g.rt, g.rng) })
}
fn mk_vecvec(g: &mut GenCx) -> Box<dyn PieceT> {
    let n = g.rng.range_usize(0, 6);
    let v = (0..n)
        .map(|_| {
            let m = g.rng.range_usize(0, 5);
            (0..m).map(|_| i32::gen(g)).collect()
        })
        .collect();
    Box::new(VecVec { v })
}
fn mk_tupvec(g: &mut GenCx) -> Box<dyn PieceT> {
    Box::new(TupVec { v: Gen::gen(g) })
}

/// (maker, weight in random sequences, weight in compound cases)
fn makers() -> Vec<(Maker, u32, u32)> {
    vec![
        (plain!(i8, "i8"), 3, 1),
        (plain!(u8, "u8"), 3, 1),
        (plain!(i16, "i16"), 3, 1),
        (plain!(u16, "u16"), 3, 1),
        (plain!(i32, "i32"), 3, 1),
        (plain!(u32, "u32"), 3, 1),
        (plain!(i64, "i64"), 3, 1),
        (plain!(u64, "u64"), 3, 1),
        (plain!(i128, "i128"), 3, 1),
        (plain!(u128, "u128"), 3, 1),
        (plain!(isize, "isize"), 3, 1),
        (plain!(usize, "usize"), 3, 1),
        (mk_str as Maker, 8, 2),
        (mk_string as Maker, 5, 2),
        (plain!((i32, u64), "tuple2"), 2, 5),
        (plain!((String, i8), "tuple2"), 2, 5),
        (plain!((u8, String, i8), "tuple3"), 2, 6),
        (plain!((i64, i64, u16, i128), "tuple4"), 2, 6),
        (plain!((u8, i16, u32, i64, u128), "tuple5"), 2, 6),
        (plain!((String, i8, u16, i32, u64, i128), "tuple6"), 2, 6),
        (plain!((isize, usize, i8, u8, String, i64, u32), "tuple7"), 2, 6),
        (plain!((i8, u8, i16, u16, i32, u32, i64, u64), "tuple8"), 2, 5),
        (plain!((i128, u128, isize, usize, String, String, i8, u64), "tuple8"), 2, 5),
        (plain!(((i32, i32), u8), "tuple_nested"), 1, 4),
        (pvec!(i64, "Vec<i64>"), 3, 6),
        (pvec!(u8, "Vec<u8>"), 2, 5),
        (pvec!(i8, "Vec<i8>"), 1, 3),
        (pvec!(u128, "Vec<u128>"), 1, 4),
        (pvec!(usize, "Vec<usize>"), 1, 3),
        (pvec!(String, "Vec<String>"), 2, 6),
        (pvec!((i32, u64), "Vec<(i32,u64)>"), 2, 6),
        (pvec!((u8, String, i128), "Vec<(u8,String,i128)>"), 1, 4),
        (mk_vecvec as Maker, 1, 4),
        (mk_tupvec as Maker, 1, 4),
    ]
}

fn pick_maker(rng: &mut Rng, mk: &[(Maker, u32, u32)], compound: bool) -> Maker {
    let w: Vec<u32> = mk.iter().map(|m| if compound { m.2 } else { m.1 }).collect();
    mk[rng.weighted(&w)].0
}

// ------------------------------------------------------------------------------------------------
// Case construction. A case = one writer lifetime; it is a pure function of (mode, id, base seed, BUF).

struct CaseSpec {
    mode: &'static str,
    id: String,
    base_seed: u64,
    actions: Vec<Action>,
    sink: SinkSpec,
    /// explicit flush() before the drop (otherwise the Drop impl has to deliver the tail)
    final_flush: bool,
    /// read the result back through Reader
    rt: bool,
    rt_seed: u64,
    /// fill-level targeting: the first action is a filler of BUF-k bytes
    fill_k: Option<usize>,
}

fn case_seed(base: u64, mode: &str, id: &str) -> u64 {
    mix(&[base, hash_str(mode), hash_str(id)])
}

const FILL_KINDS: [&str; 14] =
    ["u8", "i64::MIN", "u128::MAX", "i128::MIN", "char", "tuple3", "vec5", "str70", "strBUF", "str2BUF+3", "outln3", "empty_vec", "String70", "vec5_String"];

fn build_fill(k: usize, kind: usize, sv: u64, base: u64, buf: usize) -> CaseSpec {
    let id = format!("{}:{}:{}", k, kind, sv);
    let seed = case_seed(base, "fill", &id);
    let mut rng = Rng::new(seed);
    let mut filler = tagged(0, buf - k - 1, true, &mut rng);
    filler.push(' ');
    let mut actions = vec![Action::W(Box::new(StrRef { s: filler }))];
    let mut g = GenCx { rng: &mut rng, rt: true, seq: 1 };
    let a = match kind {
        0 => Action::W(Box::new(Plain::<u8> { v: u8::gen(&mut g), kind: "u8" })),
        1 => Action::W(Box::new(Plain::<i64> { v: i64::MIN, kind: "i64" })),
        2 => Action::W(Box::new(Plain::<u128> { v: u128::MAX, kind: "u128" })),
        3 => Action::W(Box::new(Plain::<i128> { v: i128::MIN, kind: "i128" })),
        4 => Action::Ch(b'x'),
        5 => Action::W(Box::new(Plain::<(u8, String, i8)> { v: (200, "1:hello".to_string(), -111), kind: "tuple3" })),
        6 => Action::W(Box::new(PVec::<i64> { v: (0..5).map(|_| i64::gen(&mut g)).collect(), kind: "Vec<i64>" })),
        7 => Action::W(Box::new(StrRef { s: tagged(1, 70, true, g.rng) })),
        8 => Action::W(Box::new(StrRef { s: tagged(1, buf, true, g.rng) })),
        9 => Action::W(Box::new(StrRef { s: tagged(1, 2 * buf + 3, true, g.rng) })),
        10 => Action::Out(
            vec![
                Box::new(Plain::<u8> { v: u8::gen(&mut g), kind: "u8" }),
                Box::new(StrOwned { s: tagged(1, 9, true, g.rng) }),
                Box::new(Plain::<i64> { v: i64::gen(&mut g), kind: "i64" }),
            ],
            true,
        ),
        11 => Action::W(Box::new(PVec::<i64> { v: vec![], kind: "Vec<i64>" })),
        12 => Action::W(Box::new(StrOwned { s: tagged(1, 70, true, g.rng) })),
        13 => Action::W(Box::new(PVec::<String> { v: (0..5).map(|_| String::gen(&mut g)).collect(), kind: "Vec<String>" })),
        _ => panic!("unknown fill kind {}", kind),
    };
    actions.push(a);
    actions.push(Action::Flush);
    actions.push(Action::Ch(b'\n'));
    CaseSpec { mode: "fill", id, base_seed: base, actions, sink: sink_variant(sv, seed, buf), final_flush: false, rt: true, rt_seed: mix(&[seed, 7]), fill_k: Some(k) }
}

fn string_lens(buf: usize) -> Vec<usize> {
    vec![0, 1, 2, 70, buf / 2, buf - 1, buf, buf + 1, 2 * buf, 2 * buf + 3, 3 * buf + 7]
}
fn string_prefills(buf: usize) -> Vec<usize> {
    vec![0, 1, buf / 2, buf - 70, buf - 1, buf]
}

fn build_strings(li: usize, owned: bool, pi: usize, sv: u64, base: u64, buf: usize) -> CaseSpec {
    let id = format!("{}:{}:{}:{}", li, owned as u8, pi, sv);
    let seed = case_seed(base, "strings", &id);
    let mut rng = Rng::new(seed);
    let len = string_lens(buf)[li];
    let pre = string_prefills(buf)[pi];
    let mut actions = Vec::new();
    let mk = |seq: usize, len: usize, owned: bool, rng: &mut Rng| -> Action {
        let s = tagged(seq, len, false, rng);
        if owned {
            Action::W(Box::new(StrOwned { s }))
        } else {
            Action::W(Box::new(StrRef { s }))
        }
    };
    if pre > 0 {
        actions.push(mk(0, pre, !owned, &mut rng));
    }
    let n = actions.len();
    actions.push(mk(n, len, owned, &mut rng));
    if rng.chance(1, 2) {
        actions.push(Action::Flush);
    }
    let n = actions.len();
    let l2 = rng.range_usize(0, 100);
    actions.push(mk(n, l2, owned, &mut rng));
    actions.push(Action::Ch(b'.'));
    CaseSpec { mode: "strings", id, base_seed: base, actions, sink: sink_variant(sv, seed, buf), final_flush: sv % 2 == 0, rt: false, rt_seed: 0, fill_k: None }
}

fn sep_action(rng: &mut Rng) -> Action {
    Action::Ch(if rng.chance(1, 4) { b'\n' } else { b' ' })
}

fn gen_out(g: &mut GenCx, mk: &[(Maker, u32, u32)]) -> Action {
    let ln = g.rng.chance(1, 2);
    let n = if ln { g.rng.range_usize(0, 4) } else { g.rng.range_usize(1, 4) };
    let ps = (0..n)
        .map(|_| {
            let compound = g.rng.chance(1, 3);
            pick_maker(g.rng, mk, compound)(g)
        })
        .collect();
    Action::Out(ps, ln)
}

/// optional filler that brings the buffer close to its boundary (release) before the interesting pieces
fn maybe_prefill(actions: &mut Vec<Action>, rng: &mut Rng, rt: bool, buf: usize) {
    if rng.chance(1, 3) {
        let k = rng.range_usize(1, 90);
        let mut s = tagged(0, buf - k - 1, rt, rng);
        s.push(if rt { ' ' } else { '|' });
        actions.push(Action::W(Box::new(StrRef { s })));
    }
}

fn build_compound(i: u64, base: u64, buf: usize) -> CaseSpec {
    let id = format!("{}", i);
    let seed = case_seed(base, "compound", &id);
    let mut rng = Rng::new(seed);
    let mk = makers();
    let rt = rng.chance(4, 5);
    let mut actions = Vec::new();
    maybe_prefill(&mut actions, &mut rng, rt, buf);
    let n = rng.range_usize(1, 12);
    for _ in 0..n {
        let seq = actions.len();
        let mut g = GenCx { rng: &mut rng, rt, seq };
        let a = if g.rng.chance(1, 5) { gen_out(&mut g, &mk) } else { Action::W(pick_maker(g.rng, &mk, true)(&mut g)) };
        let ends_ln = matches!(a, Action::Out(_, true));
        actions.push(a);
        if rt && !ends_ln {
            actions.push(sep_action(&mut rng));
        }
        if rng.chance(1, 20) {
            actions.push(Action::Flush);
        }
    }
    if rt {
        actions.push(Action::Ch(b'\n'));
    }
    let sv = rng.below(8);
    CaseSpec { mode: "compound", id, base_seed: base, actions, sink: sink_variant(sv, seed, buf), final_flush: rng.chance(1, 2), rt, rt_seed: mix(&[seed, 7]), fill_k: None }
}

fn build_random(i: u64, base: u64, buf: usize) -> CaseSpec {
    let id = format!("{}", i);
    let seed = case_seed(base, "random", &id);
    let mut rng = Rng::new(seed);
    let mk = makers();
    let rt = rng.chance(7, 10);
    let n = rng.range_usize(50, 400);
    let target = match rng.below(5) {
        0 => rng.range_usize(200, buf / 2),
        1 => rng.range_usize(buf / 2, 2 * buf),
        _ => rng.range_usize(buf, 5 * buf),
    };
    let mut actions = Vec::new();
    let mut scratch = Vec::new();
    maybe_prefill(&mut actions, &mut rng, rt, buf);
    for a in &actions {
        a.render(&mut scratch);
    }
    for made in 0..n {
        let seq = actions.len();
        let deficit = target.saturating_sub(scratch.len());
        let per = deficit / (n - made);
        let a = if per > 40 && rng.chance(1, 4) {
            // bulk piece
            let len = rng.range_usize(1, (8 * per).min(2 * buf + 10));
            match rng.below(4) {
                0 => Action::W(Box::new(StrOwned { s: tagged(seq, len, rt, &mut rng) })),
                1 => {
                    let mut g = GenCx { rng: &mut rng, rt, seq };
                    Action::W(Box::new(PVec::<i64> { v: (0..len / 12 + 1).map(|_| i64::gen(&mut g)).collect(), kind: "Vec<i64>" }))
                }
                _ => Action::W(Box::new(StrRef { s: tagged(seq, len, rt, &mut rng) })),
            }
        } else {
            let mut g = GenCx { rng: &mut rng, rt, seq };
            match g.rng.below(100) {
                0..=7 => gen_out(&mut g, &mk),
                8..=15 => {
                    let c = if rt { *g.rng.pick(ALPHA_RT) } else { *g.rng.pick(ALPHA_ANY) };
                    Action::Ch(c)
                }
                _ => Action::W(pick_maker(g.rng, &mk, false)(&mut g)),
            }
        };
        a.render(&mut scratch);
        let ends_ln = matches!(a, Action::Out(_, true));
        actions.push(a);
        if rt && !ends_ln {
            let s = sep_action(&mut rng);
            s.render(&mut scratch);
            actions.push(s);
        }
        if rng.chance(3, 100) {
            actions.push(Action::Flush);
            if rng.chance(1, 5) {
                actions.push(Action::Flush);
            }
        }
    }
    if rt {
        actions.push(Action::Ch(b'\n'));
    }
    let sv = rng.below(8);
    CaseSpec { mode: "random", id, base_seed: base, actions, sink: sink_variant(sv, seed, buf), final_flush: rng.chance(1, 2), rt, rt_seed: mix(&[seed, 7]), fill_k: None }
}

const LIFE_SCENARIOS: [&str; 11] = [
    "drop_without_flush_small",
    "drop_without_flush_big",
    "flush_on_empty_writer",
    "two_flushes_in_a_row",
    "flush_write_flush_flush_write",
    "only_empty_pieces",
    "drop_immediately",
    "flush_after_every_write",
    "exactly_buf_then_drop",
    "exactly_buf_plus_char_then_drop",
    "flush_empty_then_write_then_drop",
];

fn build_lifecycle(sc: usize, sv: u64, base: u64, buf: usize) -> CaseSpec {
    let id = format!("{}:{}", sc, sv);
    let seed = case_seed(base, "lifecycle", &id);
    let mut rng = Rng::new(seed);
    let mk = makers();
    let mut actions: Vec<Action> = Vec::new();
    let mut final_flush = false;
    let mut rt = true;
    // a separated small piece
    macro_rules! small {
        () => {{
            let seq = actions.len();
            let mut g = GenCx { rng: &mut rng, rt: true, seq };
            let compound = g.rng.chance(1, 2);
            let p = pick_maker(g.rng, &mk, compound)(&mut g);
            actions.push(Action::W(p));
            actions.push(Action::Ch(b'\n'));
        }};
    }
    match sc {
        0 => {
            for _ in 0..rng.range_usize(1, 6) {
                small!();
            }
        }
        1 => {
            let len = rng.range_usize(buf - 40, 2 * buf + 40);
            let mut s = tagged(0, len, true, &mut rng);
            s.push(' ');
            actions.push(Action::W(Box::new(StrOwned { s })));
            for _ in 0..rng.range_usize(1, 30) {
                small!();
            }
        }
        2 => {
            actions.push(Action::Flush);
            rt = false;
        }
        3 => {
            small!();
            actions.push(Action::Flush);
            actions.push(Action::Flush);
        }
        4 => {
            small!();
            actions.push(Action::Flush);
            small!();
            actions.push(Action::Flush);
            actions.push(Action::Flush);
            small!();
        }
        5 => {
            actions.push(Action::W(Box::new(StrRef { s: String::new() })));
            actions.push(Action::W(Box::new(PVec::<u8> { v: vec![], kind: "Vec<u8>" })));
            actions.push(Action::W(Box::new(StrOwned { s: String::new() })));
            actions.push(Action::W(Box::new(PVec::<String> { v: vec![], kind: "Vec<String>" })));
            actions.push(Action::Flush);
            rt = false;
        }
        6 => {
            rt = false;
        }
        7 => {
            for _ in 0..rng.range_usize(5, 25) {
                small!();
                actions.push(Action::Flush);
            }
            final_flush = true;
        }
        8 => {
            let mut s = tagged(0, buf - 1, true, &mut rng);
            s.push('\n');
            actions.push(Action::W(Box::new(StrRef { s })));
        }
        9 => {
            let s = tagged(0, buf, true, &mut rng);
            actions.push(Action::W(Box::new(StrRef { s })));
            actions.push(Action::Ch(b'\n'));
        }
        10 => {
            actions.push(Action::Flush);
            actions.push(Action::Flush);
            small!();
        }
        _ => panic!("unknown lifecycle scenario {}", sc),
    }
    CaseSpec { mode: "lifecycle", id, base_seed: base, actions, sink: sink_variant(sv, seed, buf), final_flush, rt, rt_seed: mix(&[seed, 7]), fill_k: None }
}

// ------------------------------------------------------------------------------------------------
// Execution of a case against the real Writer

fn replay_args(mode: &str, base: u64, id: &str) -> Vec<String> {
    vec!["--mode".into(), mode.into(), "--case".into(), format!("{}/{}", base, id)]
}

fn report_panic(rep: &mut Report, p: common::PanicInfo, cur_fn: &str, mode: &str, replay: Vec<String>, context: Json) {
    if p.in_lib {
        let f = if cur_fn.is_empty() { "unknown" } else { cur_fn };
        rep.violation(
            format!("panic:{}", f),
            context
                .set("what", "the library panicked on a lawful sequence of writes")
                .set("profile", PROFILE)
                .set("workload", mode)
                .set("panic", p.msg.as_str())
                .set("at", format!("{}:{}", p.file, p.line)),
            replay,
        );
    } else {
        rep.inconclusive(format!("harness panic at {}:{}: {} (mode {})", p.file, p.line, p.msg, mode));
    }
}

/// writes one piece alone through a fresh writer into a plain Vec; None if that panics
fn isolated(p: &dyn PieceT) -> Option<Vec<u8>> {
    catch(|| {
        let mut v = Vec::new();
        {
            let mut w = lib!(Writer::new(Box::new(&mut v)));
            lib!(p.write_to(&mut w));
            lib!(w.flush());
            lib!(drop(w));
        }
        v
    })
    .ok()
}

/// "render" check on the pieces around a difference: a single value rendered differently from the oracle
fn isolate_render(rep: &mut Report, pieces: &[&dyn PieceT], replay: &[String]) {
    for p in pieces {
        let mut want = Vec::new();
        p.render(&mut want);
        if let Some(got) = isolated(*p) {
            if got != want {
                let d = common_prefix(&got, &want, 0);
                rep.violation(
                    format!("render:{}", p.kind()),
                    Json::obj()
                        .set("what", "a single value written alone through a fresh writer is rendered differently from standard formatting")
                        .set("profile", PROFILE)
                        .set("piece", p.describe())
                        .set("got_len", got.len())
                        .set("want_len", want.len())
                        .set("first_differing_offset", d)
                        .set("got_excerpt", excerpt(&got, d))
                        .set("want_excerpt", excerpt(&want, d)),
                    replay.to_vec(),
                );
            }
        }
    }
}

fn run_actions(spec: &CaseSpec, buf: usize, rep: &mut Report, verbose: bool) {
    rep.inc("evaluations");
    rep.see_str("workloads", spec.mode);
    let replay = replay_args(spec.mode, spec.base_seed, &spec.id);
    let cur_fn: Cell<&'static str> = Cell::new("");
    let st = Rc::new(RefCell::new(SinkState::new()));
    let actions = &spec.actions;
    let describe = |i: usize| actions.get(i).map(|a| a.describe()).unwrap_or_else(|| if i == actions.len() && spec.final_flush { "final flush()".to_string() } else { "drop(writer)".to_string() });
    if verbose {
        eprintln!("case {} {}/{}  profile {}  BUF {}", spec.mode, spec.base_seed, spec.id, PROFILE, buf);
        eprintln!("  sink: {}", spec.sink.to_json().dump());
        for (i, a) in actions.iter().enumerate() {
            if i < 60 || i + 5 >= actions.len() {
                eprintln!("  #{} {}", i, a.describe());
            } else if i == 60 {
                eprintln!("  ... ({} actions in total)", actions.len());
            }
        }
        eprintln!("  then: {}drop(writer){}", if spec.final_flush { "flush(), " } else { "" }, if spec.rt { ", round trip through Reader" } else { "" });
    }
    for a in actions {
        match a {
            Action::W(p) => rep.see_str("piece_kinds", p.kind()),
            Action::Ch(_) => rep.see_str("piece_kinds", "char"),
            Action::Flush => {}
            Action::Out(ps, ln) => {
                rep.see_str("piece_kinds", if *ln { "outln!" } else { "out!" });
                for p in ps {
                    rep.see_str("piece_kinds", p.kind());
                }
            }
        }
    }
    let mut mon = Monitor::new(buf, st.clone());
    let mut macro_evals: Option<(usize, usize)> = None;
    // a quarter of the cases run with a re-entrant sink, another quarter moves the writer between writes
    let variant = case_seed(spec.base_seed, spec.mode, &spec.id) >> 7;
    let mut excursions = 0u64;
    let mut via_trait = 0u64;
    REENTRANT_SINK_ERRORS.with(|c| c.set(0));
    REENTRANT_SINK_CALLS.with(|c| c.set(0));
    let mut bad: Option<Bad> = None;
    let mut rt_values = 0u64;
    let mut rt_bad: Option<(usize, String, String)> = None;
    let r = catch(|| {
        let sink = ScriptedWrite::new(&spec.sink, st.clone(), buf);
        let reader = Reader::new(Box::new(io::empty()));
        let writer = ManuallyDrop::new(lib!(Writer::new(Box::new(sink))));
        rlib_io::make_output_macro!(reader, writer);
        REENTRANT_SINK.with(|c| c.set(variant % 4 == 1));
        for (i, a) in actions.iter().enumerate() {
            let pending = writer.verif_pending();
            let is_flush = matches!(a, Action::Flush);
            mon.begin(pending, !is_flush);
            a.render(&mut mon.exp);
            let mut calls = 1u64;
            match a {
                Action::W(p) if variant % 4 == 2 && i % 3 == 1 => {
                    // the writer value is moved: it changes places with a fresh writer, does this write from the other
                    // place, and is moved back (a Writer is an ordinary movable value: mem::swap, Box::new, a struct field)
                    cur_fn.set("write");
                    excursions += 1;
                    // (never dropped implicitly: if the write panics, the writer under test sits in `elsewhere`, and its Drop
                    // would flush - and panic again - while unwinding)
                    let mut elsewhere = ManuallyDrop::new(lib!(Writer::new(Box::new(io::sink()))));
                    std::mem::swap(&mut *writer, &mut *elsewhere);
                    lib!(p.write_to(&mut elsewhere));
                    std::mem::swap(&mut *writer, &mut *elsewhere);
                    // SAFETY: `elsewhere` holds the fresh writer again and is not used afterwards
                    unsafe { ManuallyDrop::drop(&mut elsewhere) };
                }
                Action::W(p) if variant % 4 == 3 && i % 2 == 0 => {
                    cur_fn.set("write");
                    via_trait += 1;
                    let _reset = ViaTraitGuard::set();
                    lib!(p.write_to(&mut writer));
                }
                Action::W(p) => {
                    cur_fn.set("write");
                    lib!(p.write_to(&mut writer));
                }
                Action::Ch(c) => {
                    cur_fn.set("write_char");
                    lib!(writer.write_char(*c as char));
                }
                Action::Flush => {
                    cur_fn.set("flush");
                    mon.flushes += 1;
                    lib!(writer.flush());
                }
                Action::Out(ps, ln) => {
                    cur_fn.set("out!");
                    calls = (2 * ps.len()).saturating_sub(1) as u64 + *ln as u64;
                    let d: Vec<Dyn> = ps.iter().map(|p| Dyn(&**p)).collect();
                    if i % 2 == 1 && !d.is_empty() {
                        // arguments with a side effect: each argument expression takes the next piece from a cursor (as
                        // `it.next().unwrap()` or `stack.pop()` would); a macro evaluates each argument exactly once
                        let mut k = 0usize;
                        fn nx<'a, 'p>(k: &mut usize, d: &'a [Dyn<'p>]) -> &'a Dyn<'p> {
                            let r = &d[*k % d.len()];
                            *k += 1;
                            r
                        }
                        rep.inc("macro_calls_with_side_effecting_arguments");
                        lib!({
                            match (d.len(), *ln) {
                                (1, false) => {
                                    out!(*nx(&mut k, &d));
                                }
                                (2, false) => {
                                    out!(*nx(&mut k, &d), *nx(&mut k, &d));
                                }
                                (3, false) => {
                                    out!(*nx(&mut k, &d), *nx(&mut k, &d), *nx(&mut k, &d));
                                }
                                (4, false) => {
                                    out!(*nx(&mut k, &d), *nx(&mut k, &d), *nx(&mut k, &d), *nx(&mut k, &d));
                                }
                                (1, true) => {
                                    outln!(*nx(&mut k, &d));
                                }
                                (2, true) => {
                                    outln!(*nx(&mut k, &d), *nx(&mut k, &d));
                                }
                                (3, true) => {
                                    outln!(*nx(&mut k, &d), *nx(&mut k, &d), *nx(&mut k, &d));
                                }
                                (4, true) => {
                                    outln!(*nx(&mut k, &d), *nx(&mut k, &d), *nx(&mut k, &d), *nx(&mut k, &d));
                                }
                                _ => panic!("harness: out! arity {} not supported", d.len()),
                            }
                        });
                        if k != d.len() {
                            macro_evals = Some((d.len(), k));
                        }
                    } else {
                        lib!({
                            match (d.len(), *ln) {
                                (0, true) => {
                                    outln!();
                                }
                                (1, false) => {
                                    out!(d[0]);
                                }
                                (2, false) => {
                                    out!(d[0], d[1]);
                                }
                                (3, false) => {
                                    out!(d[0], d[1], d[2]);
                                }
                                (4, false) => {
                                    out!(d[0], d[1], d[2], d[3]);
                                }
                                (1, true) => {
                                    outln!(d[0]);
                                }
                                (2, true) => {
                                    outln!(d[0], d[1]);
                                }
                                (3, true) => {
                                    outln!(d[0], d[1], d[2]);
                                }
                                (4, true) => {
                                    outln!(d[0], d[1], d[2], d[3]);
                                }
                                _ => panic!("harness: out! arity {} not supported", d.len()),
                            }
                        });
                    }
                }
            }
            cur_fn.set("");
            let pend = writer.verif_pending();
            let res = if is_flush { mon.post_flush(pend, "flush()") } else { mon.post_write(pend, calls) };
            if let Err(b) = res {
                bad = Some(b);
                return;
            }
            if i == 0 {
                if let Some(k) = spec.fill_k {
                    if pend == buf - k {
                        rep.inc("fill_target_hit");
                    }
                }
            }
        }
        if spec.final_flush {
            mon.begin(writer.verif_pending(), false);
            cur_fn.set("flush");
            mon.flushes += 1;
            lib!(writer.flush());
            cur_fn.set("");
            if let Err(b) = mon.post_flush(writer.verif_pending(), "final flush()") {
                bad = Some(b);
                return;
            }
        }
        if writer.verif_pending() > 0 {
            rep.inc("drops_with_pending");
        }
        rep.inc("drops");
        mon.begin(writer.verif_pending(), false);
        cur_fn.set("drop");
        lib!(drop(ManuallyDrop::into_inner(writer)));
        cur_fn.set("");
        if let Err(b) = mon.post_flush(0, "drop(writer)") {
            bad = Some(b);
            return;
        }
        // round trip
        if spec.rt {
            let mut data = pool_take();
            data.extend_from_slice(&st.borrow().data);
            assert!(data.last() == Some(&b'\n') && !data.contains(&b'\r'), "harness: round-trip text must end with \\n and contain no \\r");
            let mut rd = lib!(Reader::new(Box::new(ScriptedRead::new(data, spec.rt_seed))));
            cur_fn.set("reader.read");
            'rt: for (i, a) in actions.iter().enumerate() {
                let ps: Vec<&dyn PieceT> = match a {
                    Action::W(p) => vec![&**p],
                    Action::Out(ps, _) => ps.iter().map(|p| &**p).collect(),
                    Action::Ch(c) => {
                        if !c.is_ascii_whitespace() {
                            let got: char = lib!(rd.read::<char>());
                            rt_values += 1;
                            if got != *c as char {
                                rt_bad = Some((i, "char".into(), format!("read back {:?} but wrote {:?}", got, *c as char)));
                                break 'rt;
                            }
                        }
                        continue;
                    }
                    Action::Flush => continue,
                };
                for p in ps {
                    match p.read_check(&mut rd) {
                        Ok(n) => rt_values += n,
                        Err(e) => {
                            rt_bad = Some((i, p.kind().to_string(), e));
                            break 'rt;
                        }
                    }
                }
            }
            cur_fn.set("");
        }
    });
    mon.flush_counters(rep);
    rep.count("roundtrip_values", rt_values);
    if spec.rt && r.is_ok() && bad.is_none() {
        rep.inc("roundtrip_cases");
    }
    if mon.nontrivial() {
        rep.see("nontrivial", mix(&[hash_str(spec.mode), hash_str(&spec.id), spec.base_seed]));
    }
    let npieces = actions.len() + 1 + spec.final_flush as usize;
    if let Err(p) = r {
        let ctx = Json::obj()
            .set("during", cur_fn.get())
            .set("action_index", mon.starts.len().saturating_sub(1))
            .set("action", describe(mon.starts.len().saturating_sub(1)))
            .set("pieces_head", Json::from((0..actions.len().min(8)).map(|i| describe(i)).collect::<Vec<_>>()))
            .set("sink", spec.sink.to_json());
        if verbose {
            eprintln!("  PANIC during {}: {} at {}:{}", cur_fn.get(), p.msg, p.file, p.line);
        }
        report_panic(rep, p, cur_fn.get(), spec.mode, replay.clone(), ctx);
        return;
    }
    REENTRANT_SINK.with(|c| c.set(false));
    rep.count("writes_from_another_place_after_a_move", excursions);
    rep.count("writes_through_the_trait_method", via_trait);
    rep.count("reentrant_sink_calls", REENTRANT_SINK_CALLS.with(|c| c.get()));
    if REENTRANT_SINK_ERRORS.with(|c| c.get()) > 0 {
        rep.violation(
            format!("reentrant_sink_inner_writer:{}", PROFILE),
            Json::obj()
                .set("what", "a second Writer used by the sink while it handles a call of the first one rendered its integers wrongly")
                .set("wrong_inner_outputs", REENTRANT_SINK_ERRORS.with(|c| c.get()))
                .set("workload", spec.mode),
            replay.clone(),
        );
        return;
    }
    if let Some((args, evals)) = macro_evals {
        rep.violation(
            format!("macro_argument_evaluations:{}", PROFILE),
            Json::obj()
                .set("what", "out! / outln! evaluated its argument expressions a different number of times than there are arguments (an argument with a side effect - it.next(), stack.pop() - is written wrongly and consumed twice)")
                .set("arguments", args)
                .set("evaluations", evals)
                .set("workload", spec.mode),
            replay.clone(),
        );
        return;
    }
    if let Some(b) = bad {
        let (mut j, pidx) = bad_detail(&b, &mon, &spec.sink, npieces, &describe);
        if let Some(k) = spec.fill_k {
            j.push_kv("fill_level_targeted", format!("BUF-{} = {} bytes pending before piece #1", k, buf - k));
            let kind: usize = spec.id.split(':').nth(1).and_then(|x| x.parse().ok()).unwrap_or(0);
            j.push_kv("fill_piece_kind", FILL_KINDS[kind.min(FILL_KINDS.len() - 1)]);
        }
        j.push_kv("workload", spec.mode);
        if verbose {
            eprintln!("  VIOLATION {}: {}", b.kind, j.dump());
        }
        rep.violation(format!("{}:{}:{}", b.kind, PROFILE, spec.mode), j, replay.clone());
        // is a single value rendered wrongly?
        let mut near: Vec<&dyn PieceT> = Vec::new();
        for i in pidx.saturating_sub(1)..(pidx + 2).min(actions.len()) {
            match &actions[i] {
                Action::W(p) => near.push(&**p),
                Action::Out(ps, _) => near.extend(ps.iter().map(|p| &**p)),
                _ => {}
            }
        }
        isolate_render(rep, &near, &replay);
        return;
    }
    if let Some((i, kind, e)) = rt_bad {
        let j = Json::obj()
            .set("what", "reading the produced text back through Reader does not return the value that was written")
            .set("profile", PROFILE)
            .set("workload", spec.mode)
            .set("action_index", i)
            .set("action", describe(i))
            .set("mismatch", e)
            .set("text_len", mon.exp.len())
            .set("text_around_piece", excerpt(&mon.exp, mon.starts[i]))
            .set("source_chunking_seed", spec.rt_seed);
        if verbose {
            eprintln!("  VIOLATION roundtrip: {}", j.dump());
        }
        rep.violation(format!("roundtrip:{}", kind), j, replay);
        return;
    }
    if verbose {
        let st = st.borrow();
        eprintln!(
            "  ok: expected {} bytes, sink {} bytes, sink calls {} (full {}, partial {}, interrupted {}), round-trip values {}",
            mon.exp.len(),
            st.data.len(),
            st.calls,
            st.full,
            st.partial,
            st.interrupted,
            rt_values
        );
    }
    if rep.wants_sample() && actions.len() <= 10 && mon.exp.len() <= 400 && !actions.is_empty() {
        let st = st.borrow();
        rep.sample(
            Json::obj()
                .set("mode", spec.mode)
                .set("case", format!("{}/{}", spec.base_seed, spec.id))
                .set("actions", Json::from(actions.iter().map(|a| a.describe()).collect::<Vec<_>>()))
                .set("then", if spec.final_flush { "flush, drop" } else { "drop without flush" })
                .set("sink_received", show_bytes(&st.data))
                .set("sink_calls", Json::from(st.log.iter().map(|&(o, a)| if a < 0 { format!("{}->Interrupted", o) } else { format!("{}->{}", o, a) }).collect::<Vec<_>>()))
                .set("round_trip_values", rt_values),
        );
    }
}

// ------------------------------------------------------------------------------------------------
// Typed integer cases: value, separator, value, separator, ... through one writer; read back with the same type

fn int_case<T: IntT>(mode: &'static str, id: &str, base: u64, vals: &[T], sv: u64, buf: usize, rep: &mut Report, verbose: bool) {
    rep.inc("evaluations");
    rep.see_str("workloads", mode);
    rep.see_str("piece_kinds", T::NAME);
    rep.see_str("piece_kinds", "char");
    let replay = replay_args(mode, base, id);
    let seed = case_seed(base, mode, id);
    let sink_spec = sink_variant(sv, seed, buf);
    let final_flush = seed & 1 == 0;
    let cur_fn: Cell<&'static str> = Cell::new("");
    let st = Rc::new(RefCell::new(SinkState::new()));
    let sep_of = |i: usize| if i % 8 == 7 || i + 1 == vals.len() { b'\n' } else { b' ' };
    let describe = |i: usize| {
        if i >= 2 * vals.len() {
            "flush()/drop(writer)".to_string()
        } else if i % 2 == 0 {
            format!("write {} {}", T::NAME, vals[i / 2])
        } else {
            format!("write_char {:?}", sep_of(i / 2) as char)
        }
    };
    if verbose {
        eprintln!("case {} {}/{}  profile {}  BUF {}: {} values of {} with separators", mode, base, id, PROFILE, buf, vals.len(), T::NAME);
        eprintln!("  sink: {}", sink_spec.to_json().dump());
        for i in 0..(2 * vals.len()).min(24) {
            eprintln!("  #{} {}", i, describe(i));
        }
    }
    let mut mon = Monitor::new(buf, st.clone());
    let mut bad: Option<Bad> = None;
    let mut rt_values = 0u64;
    let mut rt_bad: Option<(usize, String)> = None;
    let mut lens = [false; 48];
    let r = catch(|| {
        let sink = ScriptedWrite::new(&sink_spec, st.clone(), buf);
        let mut writer = ManuallyDrop::new(lib!(Writer::new(Box::new(sink))));
        for (i, v) in vals.iter().enumerate() {
            mon.begin(writer.verif_pending(), true);
            let before = mon.exp.len();
            write!(mon.exp, "{}", v).unwrap();
            lens[(mon.exp.len() - before).min(47)] = true;
            cur_fn.set("write");
            lib!(writer.write(v));
            if let Err(b) = mon.post_write(writer.verif_pending(), 1) {
                bad = Some(b);
                return;
            }
            mon.begin(writer.verif_pending(), true);
            let sep = sep_of(i);
            mon.exp.push(sep);
            cur_fn.set("write_char");
            lib!(writer.write_char(sep as char));
            if let Err(b) = mon.post_write(writer.verif_pending(), 1) {
                bad = Some(b);
                return;
            }
        }
        if final_flush {
            mon.begin(writer.verif_pending(), false);
            cur_fn.set("flush");
            mon.flushes += 1;
            lib!(writer.flush());
            if let Err(b) = mon.post_flush(writer.verif_pending(), "final flush()") {
                bad = Some(b);
                return;
            }
        }
        if writer.verif_pending() > 0 {
            rep.inc("drops_with_pending");
        }
        rep.inc("drops");
        mon.begin(writer.verif_pending(), false);
        cur_fn.set("drop");
        lib!(drop(ManuallyDrop::into_inner(writer)));
        if let Err(b) = mon.post_flush(0, "drop(writer)") {
            bad = Some(b);
            return;
        }
        if vals.is_empty() {
            return;
        }
        let data = std::mem::take(&mut st.borrow_mut().data);
        let mut rd = lib!(Reader::new(Box::new(ScriptedRead::new(data, mix(&[seed, 7])))));
        cur_fn.set("reader.read");
        for (i, v) in vals.iter().enumerate() {
            let got: T = lib!(rd.read::<T>());
            rt_values += 1;
            if got != *v {
                rt_bad = Some((i, format!("read back {} but wrote {}", got, v)));
                break;
            }
        }
        cur_fn.set("");
    });
    // the sink data was moved into the reader after the final comparison; restore the length-based counters first
    mon.flush_counters(rep);
    rep.count("roundtrip_values", rt_values);
    for (l, &b) in lens.iter().enumerate() {
        if b {
            rep.see_str("int_type_x_rendered_len", &format!("{}:{}", T::NAME, l));
        }
    }
    if mon.nontrivial() {
        rep.see("nontrivial", mix(&[hash_str(mode), hash_str(id), base]));
    }
    if let Err(p) = r {
        let step = mon.starts.len().saturating_sub(1);
        let ctx = Json::obj().set("during", cur_fn.get()).set("action_index", step).set("action", describe(step)).set("sink", sink_spec.to_json());
        if verbose {
            eprintln!("  PANIC during {}: {} at {}:{}", cur_fn.get(), p.msg, p.file, p.line);
        }
        report_panic(rep, p, cur_fn.get(), mode, replay, ctx);
        return;
    }
    if let Some(b) = bad {
        let (j, pidx) = bad_detail(&b, &mon, &sink_spec, 2 * vals.len() + 2, &describe);
        let j = j.set("workload", mode).set("int_type", T::NAME);
        if verbose {
            eprintln!("  VIOLATION {}: {}", b.kind, j.dump());
        }
        rep.violation(format!("{}:{}:{}", b.kind, PROFILE, mode), j, replay.clone());
        let vi = pidx / 2;
        let near: Vec<Plain<T>> = (vi.saturating_sub(1)..(vi + 2).min(vals.len())).map(|i| Plain { v: vals[i], kind: T::NAME }).collect();
        let refs: Vec<&dyn PieceT> = near.iter().map(|p| p as &dyn PieceT).collect();
        isolate_render(rep, &refs, &replay);
        return;
    }
    if let Some((i, e)) = rt_bad {
        let j = Json::obj()
            .set("what", "reading the produced text back through Reader does not return the value that was written")
            .set("profile", PROFILE)
            .set("workload", mode)
            .set("value_index", i)
            .set("mismatch", e)
            .set("text_around_value", excerpt(&mon.exp, mon.starts[2 * i]));
        if verbose {
            eprintln!("  VIOLATION roundtrip: {}", j.dump());
        }
        rep.violation(format!("roundtrip:{}", T::NAME), j, replay);
        return;
    }
    rep.inc("roundtrip_cases");
    if verbose {
        eprintln!("  ok: expected {} bytes delivered, {} values read back", mon.exp.len(), rt_values);
    }
}

macro_rules! by_int_type {
    ($name:expr, $f:ident ( $($arg:expr),* )) => {
        match $name {
            "i8" => $f::<i8>($($arg),*),
            "u8" => $f::<u8>($($arg),*),
            "i16" => $f::<i16>($($arg),*),
            "u16" => $f::<u16>($($arg),*),
            "i32" => $f::<i32>($($arg),*),
            "u32" => $f::<u32>($($arg),*),
            "i64" => $f::<i64>($($arg),*),
            "u64" => $f::<u64>($($arg),*),
            "i128" => $f::<i128>($($arg),*),
            "u128" => $f::<u128>($($arg),*),
            "isize" => $f::<isize>($($arg),*),
            "usize" => $f::<usize>($($arg),*),
            other => panic!("unknown integer type {}", other),
        }
    };
}

/// id = sweep:<chunk>:<nchunks>:<sv> | special:<sv> | rand:<i>:<n>   (after the type name)
fn int_dispatch<T: IntT>(what: &str, rest: &[&str], id: &str, base: u64, buf: usize, rep: &mut Report, verbose: bool) {
    let num = |i: usize| -> u64 { rest[i].parse().expect("numeric case parameter") };
    match what {
        "sweep" => {
            let (chunk, nchunks, sv) = (num(0), num(1), num(2));
            let total = 1u64 << T::BITS;
            let per = total / nchunks;
            let vals: Vec<T> = (chunk * per..(chunk + 1) * per).map(|x| T::from_bits(x as u128)).collect();
            rep.count("sweep_values", vals.len() as u64);
            int_case::<T>("integers", id, base, &vals, sv, buf, rep, verbose);
        }
        "special" => {
            let sv = num(0);
            let mut vals = specials::<T>();
            if sv % 2 == 1 {
                Rng::new(case_seed(base, "integers", id)).shuffle(&mut vals);
            }
            rep.count("special_values", vals.len() as u64);
            int_case::<T>("integers", id, base, &vals, sv, buf, rep, verbose);
        }
        "rand" => {
            let (i, n) = (num(0), num(1));
            let mut rng = Rng::new(mix(&[case_seed(base, "integers", id), 99]));
            let vals: Vec<T> = (0..n).map(|_| gen_int::<T>(&mut rng)).collect();
            rep.count("random_int_values", n);
            int_case::<T>("integers", id, base, &vals, i % 8, buf, rep, verbose);
        }
        other => panic!("unknown integer case kind {}", other),
    }
}

fn run_by_id(mode: &str, id: &str, base: u64, buf: usize, rep: &mut Report, verbose: bool) {
    let parts: Vec<&str> = id.split(':').collect();
    let num = |i: usize| -> u64 { parts[i].parse().expect("numeric case parameter") };
    match mode {
        "integers" => {
            // <kind>:<type>:...
            let (what, ty) = (parts[0], parts[1]);
            by_int_type!(ty, int_dispatch(what, &parts[2..], id, base, buf, rep, verbose));
        }
        "u32sweep" => {
            let chunk = num(0);
            let vals: Vec<u32> = ((chunk << 16)..((chunk + 1) << 16)).map(|x| x as u32).collect();
            rep.count("sweep_values", vals.len() as u64);
            int_case::<u32>("u32sweep", id, base, &vals, LIGHT_SVS[(chunk % 5) as usize], buf, rep, verbose);
        }
        "fill" => run_actions(&build_fill(num(0) as usize, num(1) as usize, num(2), base, buf), buf, rep, verbose),
        "strings" => run_actions(&build_strings(num(0) as usize, num(1) != 0, num(2) as usize, num(3), base, buf), buf, rep, verbose),
        "compound" => run_actions(&build_compound(num(0), base, buf), buf, rep, verbose),
        "random" => run_actions(&build_random(num(0), base, buf), buf, rep, verbose),
        "lifecycle" => run_actions(&build_lifecycle(num(0) as usize, num(1), base, buf), buf, rep, verbose),
        m => panic!("unknown mode {}", m),
    }
}

/// the case ids of a mode in the given tier (heavy ones first)
fn case_ids(mode: &str, thorough: bool, buf: usize, a: &common::Args) -> Vec<String> {
    let mut v = Vec::new();
    match mode {
        "integers" => {
            let svs: Vec<u64> = if thorough { LIGHT_SVS.to_vec() } else { vec![0] };
            for ty in ["i16", "u16"] {
                for chunk in 0..4u64 {
                    for &sv in &svs {
                        // quick: rotate the light variants over the chunks
                        let sv = if thorough { sv } else { LIGHT_SVS[((chunk + (ty == "u16") as u64 * 2) % 5) as usize] };
                        v.push(format!("sweep:{}:{}:4:{}", ty, chunk, sv));
                    }
                }
            }
            for ty in ["i8", "u8"] {
                for sv in 0..8 {
                    v.push(format!("sweep:{}:0:1:{}", ty, sv));
                }
            }
            for ty in INT_TYPES {
                for sv in 0..(if thorough { 8 } else { 3 }) {
                    v.push(format!("special:{}:{}", ty, sv));
                }
                let (cases, n) = if thorough { (a.u64("int-cases", 300), 2500) } else { (a.u64("int-cases", 4), 500) };
                for i in 0..cases {
                    v.push(format!("rand:{}:{}:{}", ty, i, n));
                }
            }
        }
        "u32sweep" => {
            let stride = a.u64("u32-stride", 1).max(1);
            let mut c = 0u64;
            while c < 65536 {
                v.push(format!("{}", c));
                c += stride;
            }
        }
        "fill" => {
            let kmax = if thorough { 200 } else { 64 };
            for kind in [9usize, 8, 0, 1, 2, 3, 4, 5, 6, 7, 10, 11, 12, 13] {
                for k in 0..=kmax {
                    if thorough {
                        for sv in 0..8 {
                            v.push(format!("{}:{}:{}", k, kind, sv));
                        }
                    } else {
                        let x = (k + kind) as u64;
                        for sv in [0, 1 + x % 7, 1 + (x + 3) % 7] {
                            v.push(format!("{}:{}:{}", k, kind, sv));
                        }
                    }
                }
            }
        }
        "strings" => {
            let nl = string_lens(buf).len();
            let np = string_prefills(buf).len();
            for li in (0..nl).rev() {
                for owned in 0..2 {
                    for pi in 0..np {
                        for sv in 0..(if thorough { 8 } else { 4 }) {
                            let sv = if thorough { sv } else { (sv * 2 + (li + pi) as u64 % 2) % 8 };
                            v.push(format!("{}:{}:{}:{}", li, owned, pi, sv));
                        }
                    }
                }
            }
        }
        "compound" => {
            for i in 0..a.u64("compound-cases", if thorough { 200_000 } else { 3000 }) {
                v.push(format!("{}", i));
            }
        }
        "random" => {
            for i in 0..a.u64("random-cases", if thorough { 30_000 } else { 800 }) {
                v.push(format!("{}", i));
            }
        }
        "lifecycle" => {
            for rep_i in 0..(if thorough { 40 } else { 2 }) {
                for sc in 0..LIFE_SCENARIOS.len() {
                    for sv in 0..8u64 {
                        // sv beyond 7 selects the same sink kind with a different seed
                        v.push(format!("{}:{}", sc, sv + 8 * rep_i));
                    }
                }
            }
        }
        m => panic!("unknown mode {}", m),
    }
    v
}

/// the harness's own sink and source must behave as specified, otherwise nothing below means anything
fn self_check(buf: usize) -> Result<(), String> {
    let data: Vec<u8> = (0..(buf + 1000)).map(|i| (i % 251) as u8).collect();
    for sv in 0..8 {
        let st = Rc::new(RefCell::new(SinkState::new()));
        let mut s = ScriptedWrite::new(&sink_variant(sv, 42, buf), st.clone(), buf);
        s.write_all(&data).map_err(|e| format!("ScriptedWrite variant {}: write_all failed: {}", sv, e))?;
        let st = st.borrow();
        if st.data != data {
            return Err(format!("ScriptedWrite variant {} did not record exactly what it accepted", sv));
        }
        if sv == 1 && (st.partial == 0 || st.interrupted == 0) {
            return Err("ScriptedWrite variant 1 should produce partial accepts and Interrupted".into());
        }
    }
    for seed in 0..10 {
        let mut r = ScriptedRead::new(data.clone(), seed);
        let mut back = Vec::new();
        r.read_to_end(&mut back).map_err(|e| format!("ScriptedRead: {}", e))?;
        if back != data {
            return Err("ScriptedRead does not deliver its data".into());
        }
    }
    let mut o = Vec::new();
    (1u8, vec![-2i64, 3], "x".to_string()).ren(&mut o);
    if o != b"1 -2 3 x" {
        return Err("oracle rendering self-check failed".into());
    }
    if diagnose(b"abcdef", b"abXXcdef", 2).split(':').next() != Some("lost") || diagnose(b"abcdcdef", b"abcdef", 4).split(':').next() != Some("duplicated") {
        return Err("diagnosis self-check failed".into());
    }
    Ok(())
}

const ALL_MODES: [&str; 6] = ["integers", "fill", "strings", "random", "compound", "lifecycle"];

// ------------------------------------------------------------------------------------------------
// volume: more than 2^32 bytes through ONE writer (a byte counter kept in 32 bits wraps on the way). The sink stores
// nothing: the expected stream is periodic (one string of 65521 characters and a blank, over and over, with an integer
// now and then at known positions), so every chunk is compared with the pattern where it arrives.

struct PatternSink {
    period: Vec<u8>,
    pos: u64,
    bad_at: Rc<Cell<Option<u64>>>,
    total: Rc<Cell<u64>>,
}

impl Write for PatternSink {
    fn write(&mut self, buf: &[u8]) -> io::Result<usize> {
        let p = self.period.len() as u64;
        let mut off = (self.pos % p) as usize;
        let mut i = 0usize;
        while i < buf.len() {
            let n = (self.period.len() - off).min(buf.len() - i);
            if buf[i..i + n] != self.period[off..off + n] && self.bad_at.get().is_none() {
                self.bad_at.set(Some(self.pos + i as u64));
            }
            i += n;
            off = 0;
        }
        self.pos += buf.len() as u64;
        self.total.set(self.pos);
        Ok(buf.len())
    }
    fn flush(&mut self) -> io::Result<()> {
        Ok(())
    }
}

fn run_volume(report: &mut Report) {
    report.inc("evaluations");
    let s: String = (0..65_521usize).map(|i| (0x21 + (i * 131 % 94) as u8) as char).collect();
    let mut period = s.clone().into_bytes();
    period.push(b' ');
    let pieces: u64 = ((1u64 << 32) + (1 << 22)) / period.len() as u64 + 1;
    let bad_at = Rc::new(Cell::new(None));
    let total = Rc::new(Cell::new(0u64));
    let want_total = pieces * period.len() as u64;
    let r = catch(|| {
        let sink = PatternSink { period: period.clone(), pos: 0, bad_at: bad_at.clone(), total: total.clone() };
        // (never dropped while unwinding: if a flush panics half-way, the Drop impl would flush - and panic - again)
        let mut w = ManuallyDrop::new(lib!(Writer::new(Box::new(sink))));
        for k in 0..pieces {
            if k % 2 == 0 {
                lib!(w.write(&s));
            } else {
                let r: &str = s.as_str();
                lib!(w.write(&r));
            }
            lib!(w.write_char(' '));
            if k % 4096 == 4095 {
                lib!(w.flush());
            }
        }
        lib!(w.flush());
        drop(ManuallyDrop::into_inner(w));
    });
    report.count("volume_bytes_expected", want_total);
    report.count("volume_bytes_received", total.get());
    report.see("nontrivial", want_total);
    let replay = vec!["--mode".to_string(), "volume".to_string()];
    match r {
        Err(p) => {
            if p.in_lib {
                report.violation(
                    format!("panic:volume:{}", PROFILE),
                    Json::obj()
                        .set("what", "the writer panicked while more than 2^32 bytes went through it")
                        .set("panic", p.msg.as_str())
                        .set("at", format!("{}:{}", p.file, p.line))
                        .set("bytes_received_by_the_sink", total.get()),
                    replay,
                );
            } else {
                report.inconclusive(format!("harness panic at {}:{}: {}", p.file, p.line, p.msg));
            }
        }
        Ok(()) => {
            if let Some(at) = bad_at.get() {
                report.violation(format!("prefix_violation:volume:{}", PROFILE), Json::obj().set("what", "the byte stream differs from what was written").set("first_difference_at_offset", at), replay);
            } else if total.get() != want_total {
                report.violation(
                    format!("conservation:volume:{}", PROFILE),
                    Json::obj().set("what", "the sink did not receive exactly the bytes that were written").set("received", total.get()).set("expected", want_total),
                    replay,
                );
            }
        }
    }
}

fn main() {
    let eng = Engine::start("writemon");
    let a = &eng.args;
    let mode = a.str("mode", "all");
    let thorough = a.thorough();
    let seed = a.seed();
    let buf = Writer::verif_buf_size();
    let mut report = Report::new();
    report.extra("mode", mode.as_str());
    report.extra("profile", PROFILE);
    report.extra("debug_assertions", cfg!(debug_assertions));
    report.extra("buf_size", buf);
    report.extra("reader_buf_size", Reader::verif_buf_size());
    report.extra("exhaustive", false);
    report.extra(
        "nontrivial_rule",
        "a case (one writer lifetime) in which the writer handed data to the sink in the middle of the sequence, i.e. during a write / write_char / out! call \
         (release: the buffer filled up; dev: every write), and the sink answered at least one call with a partial accept or Interrupted",
    );
    if let Err(e) = self_check(buf) {
        report.inconclusive(format!("self-check: {}", e));
        eng.finish(report);
    }
    if buf < 1024 {
        report.inconclusive(format!("buffer size {} is too small for the workloads", buf));
        eng.finish(report);
    }
    if mode == "volume" {
        run_volume(&mut report);
        eng.finish(report);
    }
    if let Some(c) = a.opt("case") {
        let (base, id) = match c.split_once('/') {
            Some((s, id)) => (s.parse::<u64>().expect("seed in case id"), id.to_string()),
            None => (seed, c.clone()),
        };
        if mode == "all" {
            panic!("--case needs --mode");
        }
        let m = mode.clone();
        let rep = common::run_big_stack(move || {
            let mut rep = Report::new();
            let r = catch(|| run_by_id(&m, &id, base, buf, &mut rep, true));
            if let Err(p) = r {
                rep.inconclusive(format!("harness panic at {}:{}: {}", p.file, p.line, p.msg));
            }
            rep
        });
        report.merge(rep);
        eng.finish(report);
    }
    let mut modes: Vec<&str> = if mode == "all" { ALL_MODES.to_vec() } else { vec![mode.as_str()] };
    if mode == "all" && thorough {
        modes.insert(0, "u32sweep");
    }
    let mut tasks: Vec<(String, String)> = Vec::new();
    let mut per_mode = Json::obj();
    for m in &modes {
        let ids = case_ids(m, thorough, buf, a);
        per_mode.push_kv(m, ids.len());
        tasks.extend(ids.into_iter().map(|id| (m.to_string(), id)));
    }
    report.extra("cases_per_mode", per_mode);
    if modes.contains(&"u32sweep") {
        let stride = a.u64("u32-stride", 1).max(1);
        report.extra(
            "u32_sweep",
            if stride == 1 { "every u32 value rendered once (65536 chunks of 65536 values, each chunk one writer lifetime, read back)".to_string() } else { format!("every {}th chunk of 65536 consecutive u32 values", stride) },
        );
    }
    if modes.contains(&"integers") {
        report.extra("int_widths_swept_exhaustively", if modes.contains(&"u32sweep") && a.u64("u32-stride", 1) <= 1 { "8, 16, 32 (u32)" } else { "8, 16" });
    }
    let q = WorkQueue::new(tasks.len() as u64);
    let tasks = &tasks;
    let rep = common::run_sharded(a.threads(), |_s, rep| {
        rep.sample_cap = 1;
        while let Some(i) = q.take() {
            let (m, id) = &tasks[i as usize];
            let r = catch(|| run_by_id(m, id, seed, buf, rep, false));
            if let Err(p) = r {
                rep.inconclusive(format!("harness panic at {}:{}: {} (case {} {}/{})", p.file, p.line, p.msg, m, seed, id));
            }
        }
    });
    report.merge(rep);
    let writes = report.counters.get("nonempty_write_actions").cloned().unwrap_or(0);
    let fpw = report.counters.get("flush_per_write_observed").cloned().unwrap_or(0);
    report.extra("flush_per_write_observed", fpw);
    report.extra("flush_per_write_share", if writes > 0 { fpw as f64 / writes as f64 } else { 0.0 });
    eng.finish(report);
}

