//! Shared plumbing of the monitors: PRNG, JSON writer, report/evidence accumulation, panic capture,
//! sharded big-stack execution. No third-party crates.
//!
//! Nothing in here is a verdict; the oracles live in the engines.

use std::cell::{Cell, RefCell};
use std::collections::{BTreeMap, HashSet};
use std::hash::{Hash, Hasher};
use std::sync::atomic::{AtomicU64, Ordering};
use std::sync::Mutex;
use std::time::Instant;

// ------------------------------------------------------------------------------------------------
// PRNG (xoshiro256** seeded through SplitMix64). rlib_rand is code under test and is never used to
// drive a workload.

#[derive(Clone, Debug)]
pub struct Rng {
    s: [u64; 4],
}

pub fn splitmix64(x: &mut u64) -> u64 {
    *x = x.wrapping_add(0x9E37_79B9_7F4A_7C15);
    let mut z = *x;
    z = (z ^ (z >> 30)).wrapping_mul(0xBF58_476D_1CE4_E5B9);
    z = (z ^ (z >> 27)).wrapping_mul(0x94D0_49BB_1331_11EB);
    z ^ (z >> 31)
}

/// Deterministic mixing of several words into one seed.
pub fn mix(words: &[u64]) -> u64 {
    let mut acc = 0x243F_6A88_85A3_08D3u64;
    for &w in words {
        acc ^= w.wrapping_mul(0x9E37_79B9_7F4A_7C15);
        let mut t = acc;
        acc = splitmix64(&mut t);
    }
    acc
}

pub fn hash_str(s: &str) -> u64 {
    let mut h = std::collections::hash_map::DefaultHasher::new();
    s.hash(&mut h);
    h.finish()
}

pub fn hash_of<T: Hash>(t: &T) -> u64 {
    let mut h = std::collections::hash_map::DefaultHasher::new();
    t.hash(&mut h);
    h.finish()
}

impl Rng {
    pub fn new(seed: u64) -> Self {
        let mut x = seed;
        let s = [splitmix64(&mut x), splitmix64(&mut x), splitmix64(&mut x), splitmix64(&mut x)];
        Rng { s }
    }
    pub fn next_u64(&mut self) -> u64 {
        let r = self.s[1].wrapping_mul(5).rotate_left(7).wrapping_mul(9);
        let t = self.s[1] << 17;
        self.s[2] ^= self.s[0];
        self.s[3] ^= self.s[1];
        self.s[1] ^= self.s[2];
        self.s[0] ^= self.s[3];
        self.s[2] ^= t;
        self.s[3] = self.s[3].rotate_left(45);
        r
    }
    /// uniform in 0..n (n > 0), unbiased enough for workload generation (128-bit multiply)
    pub fn below(&mut self, n: u64) -> u64 {
        assert!(n > 0);
        ((self.next_u64() as u128 * n as u128) >> 64) as u64
    }
    pub fn usize_below(&mut self, n: usize) -> usize {
        self.below(n as u64) as usize
    }
    /// uniform in lo..=hi
    pub fn range_i64(&mut self, lo: i64, hi: i64) -> i64 {
        assert!(lo <= hi);
        let span = (hi as i128 - lo as i128 + 1) as u128;
        if span > u64::MAX as u128 {
            return self.next_u64() as i64;
        }
        (lo as i128 + self.below(span as u64) as i128) as i64
    }
    pub fn range_usize(&mut self, lo: usize, hi: usize) -> usize {
        assert!(lo <= hi);
        lo + self.usize_below(hi - lo + 1)
    }
    pub fn chance(&mut self, num: u64, den: u64) -> bool {
        self.below(den) < num
    }
    pub fn pick<'a, T>(&mut self, v: &'a [T]) -> &'a T {
        &v[self.usize_below(v.len())]
    }
    pub fn f64_unit(&mut self) -> f64 {
        (self.next_u64() >> 11) as f64 / (1u64 << 53) as f64
    }
    pub fn f64_range(&mut self, lo: f64, hi: f64) -> f64 {
        lo + (hi - lo) * self.f64_unit()
    }
    pub fn shuffle<T>(&mut self, v: &mut [T]) {
        for i in (1..v.len()).rev() {
            let j = self.usize_below(i + 1);
            v.swap(i, j);
        }
    }
    /// weighted choice: returns the index
    pub fn weighted(&mut self, weights: &[u32]) -> usize {
        let total: u64 = weights.iter().map(|&w| w as u64).sum();
        let mut x = self.below(total);
        for (i, &w) in weights.iter().enumerate() {
            if x < w as u64 {
                return i;
            }
            x -= w as u64;
        }
        unreachable!()
    }
}

// ------------------------------------------------------------------------------------------------
// JSON (writer only)

#[derive(Clone, Debug)]
pub enum Json {
    Null,
    Bool(bool),
    Int(i128),
    Float(f64),
    Str(String),
    Arr(Vec<Json>),
    Obj(Vec<(String, Json)>),
}

impl Json {
    pub fn obj() -> Json {
        Json::Obj(Vec::new())
    }
    pub fn set(mut self, k: &str, v: impl Into<Json>) -> Json {
        if let Json::Obj(ref mut o) = self {
            o.push((k.to_string(), v.into()));
        }
        self
    }
    pub fn push_kv(&mut self, k: &str, v: impl Into<Json>) {
        if let Json::Obj(ref mut o) = self {
            o.push((k.to_string(), v.into()));
        }
    }
    pub fn dump(&self) -> String {
        let mut s = String::new();
        self.write(&mut s);
        s
    }
    fn write(&self, out: &mut String) {
        match self {
            Json::Null => out.push_str("null"),
            Json::Bool(b) => out.push_str(if *b { "true" } else { "false" }),
            Json::Int(i) => out.push_str(&i.to_string()),
            Json::Float(f) => {
                if f.is_finite() {
                    let t = format!("{:?}", f);
                    out.push_str(&t);
                } else {
                    out.push('"');
                    out.push_str(&format!("{:?}", f));
                    out.push('"');
                }
            }
            Json::Str(s) => write_json_str(s, out),
            Json::Arr(a) => {
                out.push('[');
                for (i, x) in a.iter().enumerate() {
                    if i > 0 {
                        out.push(',');
                    }
                    x.write(out);
                }
                out.push(']');
            }
            Json::Obj(o) => {
                out.push('{');
                for (i, (k, v)) in o.iter().enumerate() {
                    if i > 0 {
                        out.push(',');
                    }
                    write_json_str(k, out);
                    out.push(':');
                    v.write(out);
                }
                out.push('}');
            }
        }
    }
}

fn write_json_str(s: &str, out: &mut String) {
    out.push('"');
    for c in s.chars() {
        match c {
            '"' => out.push_str("\\\""),
            '\\' => out.push_str("\\\\"),
            '\n' => out.push_str("\\n"),
            '\r' => out.push_str("\\r"),
            '\t' => out.push_str("\\t"),
            c if (c as u32) < 0x20 || (c as u32) == 0x7f => out.push_str(&format!("\\u{:04x}", c as u32)),
            c => out.push(c),
        }
    }
    out.push('"');
}

macro_rules! json_from_int {
    ($($t:ty),*) => {$(
        impl From<$t> for Json { fn from(v: $t) -> Json { Json::Int(v as i128) } }
    )*};
}
json_from_int!(i8, i16, i32, i64, i128, isize, u8, u16, u32, u64, usize);
impl From<u128> for Json {
    fn from(v: u128) -> Json {
        if v <= i128::MAX as u128 {
            Json::Int(v as i128)
        } else {
            Json::Str(v.to_string())
        }
    }
}
impl From<f64> for Json {
    fn from(v: f64) -> Json {
        Json::Float(v)
    }
}
impl From<bool> for Json {
    fn from(v: bool) -> Json {
        Json::Bool(v)
    }
}
impl From<&str> for Json {
    fn from(v: &str) -> Json {
        Json::Str(v.to_string())
    }
}
impl From<String> for Json {
    fn from(v: String) -> Json {
        Json::Str(v)
    }
}
impl From<&String> for Json {
    fn from(v: &String) -> Json {
        Json::Str(v.clone())
    }
}
impl<T: Into<Json>> From<Vec<T>> for Json {
    fn from(v: Vec<T>) -> Json {
        Json::Arr(v.into_iter().map(|x| x.into()).collect())
    }
}
impl<T: Into<Json>> From<Option<T>> for Json {
    fn from(v: Option<T>) -> Json {
        match v {
            Some(x) => x.into(),
            None => Json::Null,
        }
    }
}

// ------------------------------------------------------------------------------------------------
// Panic capture. A process-wide silent hook records message and location per thread; `IN_LIB` says
// whether the panicking thread was inside a call into the code under test.

#[derive(Clone, Debug)]
pub struct PanicInfo {
    pub msg: String,
    pub file: String,
    pub line: u32,
    pub in_lib: bool,
}

thread_local! {
    static LAST_PANIC: RefCell<Option<PanicInfo>> = RefCell::new(None);
    static IN_LIB: Cell<u32> = Cell::new(0);
}

pub fn install_panic_hook() {
    std::panic::set_hook(Box::new(|info| {
        let msg = if let Some(s) = info.payload().downcast_ref::<&str>() {
            s.to_string()
        } else if let Some(s) = info.payload().downcast_ref::<String>() {
            s.clone()
        } else {
            "<non-string panic payload>".to_string()
        };
        let (file, line) = info
            .location()
            .map(|l| (l.file().to_string(), l.line()))
            .unwrap_or_default();
        let in_lib = IN_LIB.with(|c| c.get() > 0) || file.contains("/rlib/");
        LAST_PANIC.with(|p| {
            *p.borrow_mut() = Some(PanicInfo { msg, file, line, in_lib });
        });
    }));
}

pub fn enter_lib() {
    IN_LIB.with(|c| c.set(c.get() + 1));
}
pub fn leave_lib() {
    IN_LIB.with(|c| c.set(c.get().saturating_sub(1)));
}
pub fn reset_lib_depth() {
    IN_LIB.with(|c| c.set(0));
}

/// Evaluate an expression that calls into the code under test. A panic raised while it runs is
/// attributed to the library.
#[macro_export]
macro_rules! lib {
    ($e:expr) => {{
        $crate::enter_lib();
        let r = $e;
        $crate::leave_lib();
        r
    }};
}

/// Runs `f`, converting a panic into `Err(PanicInfo)`.
pub fn catch<T>(f: impl FnOnce() -> T) -> Result<T, PanicInfo> {
    LAST_PANIC.with(|p| *p.borrow_mut() = None);
    match std::panic::catch_unwind(std::panic::AssertUnwindSafe(f)) {
        Ok(v) => Ok(v),
        Err(_) => {
            let info = LAST_PANIC.with(|p| p.borrow_mut().take()).unwrap_or(PanicInfo {
                msg: "<panic without hook record>".into(),
                file: String::new(),
                line: 0,
                in_lib: IN_LIB.with(|c| c.get() > 0),
            });
            reset_lib_depth();
            Err(info)
        }
    }
}

/// Runs a library call that is *expected* to panic (bounds checks, constructor rejections).
pub fn panics(f: impl FnOnce()) -> bool {
    enter_lib();
    let r = catch(f).is_err();
    reset_lib_depth();
    r
}

// ------------------------------------------------------------------------------------------------
// Report

#[derive(Clone, Debug)]
pub struct Violation {
    /// canonical signature: what KNOWN_FINDINGS.txt is keyed on
    pub signature: String,
    /// human-readable witness
    pub detail: Json,
    /// engine arguments that re-run exactly this case
    pub replay: Vec<String>,
}

#[derive(Default)]
pub struct Report {
    pub counters: BTreeMap<String, u64>,
    pub maxima: BTreeMap<String, i64>,
    pub sets: BTreeMap<String, HashSet<u64>>,
    /// members counted instead of stored, for sets whose members are distinct by construction
    pub counted_sets: BTreeMap<String, u64>,
    pub samples: Vec<Json>,
    pub sample_cap: usize,
    pub violations: Vec<Violation>,
    pub violations_total: u64,
    sigs: HashSet<String>,
    pub inconclusive: Vec<String>,
    pub extra: BTreeMap<String, Json>,
}

pub const MAX_VIOLATIONS_KEPT: usize = 40;

impl Report {
    pub fn new() -> Self {
        Report { sample_cap: 6, ..Default::default() }
    }
    pub fn count(&mut self, k: &str, n: u64) {
        *self.counters.entry(k.to_string()).or_insert(0) += n;
    }
    pub fn inc(&mut self, k: &str) {
        self.count(k, 1);
    }
    pub fn max(&mut self, k: &str, v: i64) {
        let e = self.maxima.entry(k.to_string()).or_insert(i64::MIN);
        if v > *e {
            *e = v;
        }
    }
    /// record a member of a named coverage set (only the number of distinct members is reported)
    pub fn see(&mut self, set: &str, h: u64) {
        if let Some(s) = self.sets.get_mut(set) {
            s.insert(h);
        } else {
            let mut s = HashSet::new();
            s.insert(h);
            self.sets.insert(set.to_string(), s);
        }
    }
    /// adds `n` members that are distinct by construction (case indices, enumerated tuples) without storing them
    pub fn see_counted(&mut self, set: &str, n: u64) {
        *self.counted_sets.entry(set.to_string()).or_insert(0) += n;
    }
    pub fn see_str(&mut self, set: &str, member: &str) {
        self.see(set, hash_str(member));
    }
    pub fn set_len(&self, set: &str) -> usize {
        self.sets.get(set).map(|s| s.len()).unwrap_or(0)
    }
    pub fn sample(&mut self, j: Json) {
        if self.samples.len() < self.sample_cap {
            self.samples.push(j);
        }
    }
    pub fn wants_sample(&self) -> bool {
        self.samples.len() < self.sample_cap
    }
    pub fn violation(&mut self, signature: impl Into<String>, detail: Json, replay: Vec<String>) {
        self.violations_total += 1;
        let signature = signature.into();
        if self.sigs.contains(&signature) || self.violations.len() >= MAX_VIOLATIONS_KEPT {
            return;
        }
        self.sigs.insert(signature.clone());
        self.violations.push(Violation { signature, detail, replay });
    }
    pub fn has_violations(&self) -> bool {
        self.violations_total > 0
    }
    pub fn inconclusive(&mut self, why: impl Into<String>) {
        let w = why.into();
        if self.inconclusive.len() < 20 {
            self.inconclusive.push(w);
        }
    }
    pub fn extra(&mut self, k: &str, v: impl Into<Json>) {
        self.extra.insert(k.to_string(), v.into());
    }
    pub fn merge(&mut self, other: Report) {
        for (k, v) in other.counters {
            *self.counters.entry(k).or_insert(0) += v;
        }
        for (k, v) in other.maxima {
            let e = self.maxima.entry(k).or_insert(i64::MIN);
            if v > *e {
                *e = v;
            }
        }
        for (k, v) in other.sets {
            self.sets.entry(k).or_default().extend(v);
        }
        for (k, v) in other.counted_sets {
            *self.counted_sets.entry(k).or_insert(0) += v;
        }
        for s in other.samples {
            if self.samples.len() < self.sample_cap.max(6) {
                self.samples.push(s);
            }
        }
        self.violations_total += other.violations_total;
        for v in other.violations {
            if !self.sigs.contains(&v.signature) && self.violations.len() < MAX_VIOLATIONS_KEPT {
                self.sigs.insert(v.signature.clone());
                self.violations.push(v);
            }
        }
        for w in other.inconclusive {
            self.inconclusive(w);
        }
        for (k, v) in other.extra {
            self.extra.insert(k, v);
        }
    }
    pub fn to_json(&self, engine: &str, wall_s: f64) -> Json {
        let counters = Json::Obj(self.counters.iter().map(|(k, v)| (k.clone(), Json::from(*v))).collect());
        let maxima = Json::Obj(self.maxima.iter().map(|(k, v)| (k.clone(), Json::from(*v))).collect());
        let mut set_sizes: BTreeMap<String, u64> = self.sets.iter().map(|(k, v)| (k.clone(), v.len() as u64)).collect();
        for (k, v) in &self.counted_sets {
            *set_sizes.entry(k.clone()).or_insert(0) += *v;
        }
        let sets = Json::Obj(set_sizes.iter().map(|(k, v)| (k.clone(), Json::from(*v))).collect());
        let viols = Json::Arr(
            self.violations
                .iter()
                .map(|v| {
                    Json::obj()
                        .set("signature", v.signature.as_str())
                        .set("detail", v.detail.clone())
                        .set("replay", v.replay.clone())
                })
                .collect(),
        );
        Json::obj()
            .set("engine", engine)
            .set("counters", counters)
            .set("maxima", maxima)
            .set("distinct", sets)
            .set("samples", Json::Arr(self.samples.clone()))
            .set("violations_total", self.violations_total)
            .set("violations", viols)
            .set("inconclusive", self.inconclusive.clone())
            .set("extra", Json::Obj(self.extra.iter().map(|(k, v)| (k.clone(), v.clone())).collect()))
            .set("wall_s", wall_s)
    }
}

// ------------------------------------------------------------------------------------------------
// Args

#[derive(Clone, Debug, Default)]
pub struct Args {
    pub kv: BTreeMap<String, String>,
    pub flags: HashSet<String>,
}

impl Args {
    pub fn parse() -> Args {
        let mut a = Args::default();
        let v: Vec<String> = std::env::args().skip(1).collect();
        let mut i = 0;
        while i < v.len() {
            if let Some(k) = v[i].strip_prefix("--") {
                if i + 1 < v.len() && !v[i + 1].starts_with("--") {
                    a.kv.insert(k.to_string(), v[i + 1].clone());
                    i += 2;
                } else {
                    a.flags.insert(k.to_string());
                    i += 1;
                }
            } else {
                i += 1;
            }
        }
        a
    }
    pub fn str(&self, k: &str, default: &str) -> String {
        self.kv.get(k).cloned().unwrap_or_else(|| default.to_string())
    }
    pub fn opt(&self, k: &str) -> Option<String> {
        self.kv.get(k).cloned()
    }
    pub fn u64(&self, k: &str, default: u64) -> u64 {
        self.kv.get(k).map(|s| s.parse().expect("numeric argument")).unwrap_or(default)
    }
    pub fn flag(&self, k: &str) -> bool {
        self.flags.contains(k)
    }
    pub fn thorough(&self) -> bool {
        self.str("tier", "quick") == "thorough"
    }
    pub fn seed(&self) -> u64 {
        self.u64("seed", 1)
    }
    pub fn threads(&self) -> usize {
        self.u64("threads", std::thread::available_parallelism().map(|n| n.get() as u64).unwrap_or(4)) as usize
    }
}

// ------------------------------------------------------------------------------------------------
// Sharded execution on big stacks

pub const BIG_STACK: usize = 256 << 20;

/// Shared work counter: every shard pulls the next case index until `total` is reached.
pub struct WorkQueue {
    next: AtomicU64,
    total: u64,
}
impl WorkQueue {
    pub fn new(total: u64) -> Self {
        WorkQueue { next: AtomicU64::new(0), total }
    }
    pub fn take(&self) -> Option<u64> {
        let i = self.next.fetch_add(1, Ordering::Relaxed);
        if i < self.total {
            Some(i)
        } else {
            None
        }
    }
    /// take a block of indices [a, b)
    pub fn take_block(&self, size: u64) -> Option<(u64, u64)> {
        let a = self.next.fetch_add(size, Ordering::Relaxed);
        if a < self.total {
            Some((a, (a + size).min(self.total)))
        } else {
            None
        }
    }
}

/// Runs `f(shard, &mut report)` on `threads` big-stack threads and merges the reports. A panic that
/// escapes `f` and was not attributed to the library marks the run inconclusive (harness error).
pub fn run_sharded<F>(threads: usize, f: F) -> Report
where
    F: Fn(usize, &mut Report) + Sync,
{
    let merged = Mutex::new(Report::new());
    std::thread::scope(|scope| {
        let mut handles = Vec::new();
        for shard in 0..threads {
            let f = &f;
            let merged = &merged;
            let h = std::thread::Builder::new()
                .stack_size(BIG_STACK)
                .spawn_scoped(scope, move || {
                    let mut rep = Report::new();
                    let res = catch(|| f(shard, &mut rep));
                    if let Err(p) = res {
                        if p.in_lib {
                            rep.violation(
                                format!("uncaught library panic at {}:{}: {}", p.file, p.line, p.msg),
                                Json::obj().set("panic", p.msg.as_str()).set("file", p.file.as_str()).set("line", p.line),
                                vec![],
                            );
                        } else {
                            rep.inconclusive(format!("harness panic at {}:{}: {}", p.file, p.line, p.msg));
                        }
                    }
                    merged.lock().unwrap().merge(rep);
                })
                .expect("spawn");
            handles.push(h);
        }
        for h in handles {
            let _ = h.join();
        }
    });
    merged.into_inner().unwrap()
}

/// Runs `f` on one big-stack thread.
pub fn run_big_stack<T: Send>(f: impl FnOnce() -> T + Send) -> T {
    std::thread::scope(|scope| {
        std::thread::Builder::new()
            .stack_size(BIG_STACK)
            .spawn_scoped(scope, f)
            .expect("spawn")
            .join()
            .expect("big-stack thread panicked")
    })
}

// ------------------------------------------------------------------------------------------------
// Engine main wrapper

pub struct Engine {
    pub name: String,
    pub args: Args,
    pub start: Instant,
}

impl Engine {
    pub fn start(name: &str) -> Engine {
        install_panic_hook();
        Engine { name: name.to_string(), args: Args::parse(), start: Instant::now() }
    }
    /// Writes the result file (if `--out` was given), prints a one-line summary and exits:
    /// 0 = held, 1 = violation, 2 = inconclusive.
    pub fn finish(&self, report: Report) -> ! {
        let wall = self.start.elapsed().as_secs_f64();
        let j = report.to_json(&self.name, wall);
        if let Some(out) = self.args.opt("out") {
            std::fs::write(&out, j.dump()).expect("write result file");
        }
        let total: u64 = report.counters.values().sum();
        eprintln!(
            "[{}] counters_total={} violations={} inconclusive={} wall={:.2}s",
            self.name,
            total,
            report.violations_total,
            report.inconclusive.len(),
            wall
        );
        if self.args.flag("verbose") || self.args.opt("out").is_none() {
            println!("{}", j.dump());
        }
        let code = if report.violations_total > 0 {
            1
        } else if !report.inconclusive.is_empty() {
            2
        } else {
            0
        };
        std::process::exit(code);
    }
}

/// Fixed-width hex of bytes, for witnesses.
pub fn hex(bytes: &[u8]) -> String {
    bytes.iter().map(|b| format!("{:02x}", b)).collect()
}

/// Printable rendering of input bytes for witnesses (ASCII kept, the rest escaped).
pub fn show_bytes(bytes: &[u8]) -> String {
    let mut s = String::new();
    for &b in bytes {
        match b {
            b'\n' => s.push_str("\\n"),
            b'\r' => s.push_str("\\r"),
            b'\t' => s.push_str("\\t"),
            0x0c => s.push_str("\\f"),
            0x0b => s.push_str("\\v"),
            b'\\' => s.push_str("\\\\"),
            0x20..=0x7e => s.push(b as char),
            _ => s.push_str(&format!("\\x{:02x}", b)),
        }
    }
    s
}

// ------------------------------------------------------------------------------------------------
// Iterator protocol monitor: a random script of Iterator calls (next, nth, by_ref adaptors, consuming
// terminals) is executed on the iterator under test and, call for call, on `want.iter()` - std's slice
// iterator over the expected sequence is the oracle. Nothing is demanded after the first None.

/// Runs one random script. Ok(number of calls compared) or Err(description of the first discrepancy with
/// the script so far).
pub fn iter_protocol<T, I>(mut it: I, want: &[T], rng: &mut Rng, max_calls: usize) -> Result<u64, String>
where
    T: PartialEq + std::fmt::Debug + Clone + Ord,
    I: Iterator<Item = T>,
{
    let mut model = want.iter().cloned();
    let mut log: Vec<String> = Vec::new();
    let mut calls = 0u64;
    macro_rules! cmp {
        ($desc:expr, $got:expr, $exp:expr) => {{
            let (g, e) = ($got, $exp);
            calls += 1;
            log.push($desc);
            if g != e {
                let shown: Vec<String> = log.iter().rev().take(12).rev().cloned().collect();
                return Err(format!("after calls [{}]: got {:?}, want {:?}", shown.join(", "), g, e));
            }
        }};
    }
    for _ in 0..max_calls {
        let remaining = model.clone().count();
        let small = |rng: &mut Rng| -> usize {
            match rng.below(4) {
                0 => 0,
                1 => 1,
                2 => rng.usize_below(4),
                _ => rng.usize_below(remaining + 2),
            }
        };
        match rng.below(15) {
            12 => {
                // exactly everything that is left, through take(): the iterator has yielded all its items but has not
                // been asked beyond them yet; then a terminal (which must see nothing)
                let g: Vec<T> = enter_call(|| it.by_ref().take(remaining).collect());
                let e: Vec<T> = model.by_ref().take(remaining).collect();
                cmp!(format!("by_ref().take({}).collect() (exactly the rest)", remaining), g, e);
                match rng.below(4) {
                    0 => {
                        let (g, e) = (enter_call(|| it.last()), model.last());
                        cmp!("last()".to_string(), g, e);
                    }
                    1 => {
                        let (g, e) = (enter_call(|| it.max()), model.max());
                        cmp!("max()".to_string(), g, e);
                    }
                    2 => {
                        let (g, e) = (enter_call(|| it.count()), model.count());
                        cmp!("count()".to_string(), g, e);
                    }
                    _ => {
                        let (g, e) = (enter_call(|| it.min()), model.min());
                        cmp!("min()".to_string(), g, e);
                    }
                }
                return Ok(calls);
            }
            13 => {
                let (g, e) = (enter_call(|| it.max()), model.max());
                cmp!("max()".to_string(), g, e);
                return Ok(calls);
            }
            14 => {
                let (g, e) = (enter_call(|| it.min()), model.min());
                cmp!("min()".to_string(), g, e);
                return Ok(calls);
            }
            0 | 1 | 2 => {
                let (g, e) = (enter_call(|| it.next()), model.next());
                let done = e.is_none();
                cmp!("next()".to_string(), g, e);
                if done {
                    return Ok(calls);
                }
            }
            3 | 4 => {
                let k = small(rng);
                let (g, e) = (enter_call(|| it.nth(k)), model.nth(k));
                let done = e.is_none();
                cmp!(format!("nth({})", k), g, e);
                if done {
                    return Ok(calls);
                }
            }
            5 => {
                let k = small(rng);
                let g: Vec<T> = enter_call(|| it.by_ref().take(k).collect());
                let e: Vec<T> = model.by_ref().take(k).collect();
                let done = e.len() < k;
                cmp!(format!("by_ref().take({}).collect()", k), g, e);
                if done {
                    return Ok(calls);
                }
            }
            6 => {
                let k = small(rng);
                let (g, e) = (enter_call(|| it.by_ref().skip(k).next()), model.by_ref().skip(k).next());
                let done = e.is_none();
                cmp!(format!("by_ref().skip({}).next()", k), g, e);
                if done {
                    return Ok(calls);
                }
            }
            7 => {
                let s = 1 + small(rng).min(70);
                let m = 1 + rng.usize_below(4);
                let g: Vec<T> = enter_call(|| it.by_ref().step_by(s).take(m).collect());
                let e: Vec<T> = model.by_ref().step_by(s).take(m).collect();
                let done = e.len() < m;
                cmp!(format!("by_ref().step_by({}).take({}).collect()", s, m), g, e);
                if done {
                    return Ok(calls);
                }
            }
            8 => {
                // find of an element known to be ahead (or of nothing)
                if remaining == 0 {
                    continue;
                }
                let ahead: Vec<T> = model.clone().collect();
                let target = ahead[rng.usize_below(ahead.len())].clone();
                let (g, e) = (enter_call(|| it.by_ref().find(|x| *x == target)), model.by_ref().find(|x| *x == target));
                cmp!(format!("by_ref().find(== {:?})", target), g, e);
            }
            9 => {
                let (g, e) = (enter_call(|| it.count()), model.count());
                cmp!("count()".to_string(), g, e);
                return Ok(calls);
            }
            10 => {
                let (g, e) = (enter_call(|| it.last()), model.last());
                cmp!("last()".to_string(), g, e);
                return Ok(calls);
            }
            _ => {
                let g: Vec<T> = enter_call(|| it.collect());
                let e: Vec<T> = model.collect();
                cmp!("collect()".to_string(), g, e);
                return Ok(calls);
            }
        }
    }
    Ok(calls)
}

/// The same for double-ended iterators: random scripts of next / next_back / nth / nth_back / rev / rfold-based calls
/// against std's slice iterator. Nothing is demanded after the first None from either end.
pub fn iter_protocol_de<T, I>(mut it: I, want: &[T], rng: &mut Rng, max_calls: usize) -> Result<u64, String>
where
    T: PartialEq + std::fmt::Debug + Clone,
    I: DoubleEndedIterator<Item = T>,
{
    let mut model = want.iter().cloned();
    let mut log: Vec<String> = Vec::new();
    let mut calls = 0u64;
    macro_rules! cmp {
        ($desc:expr, $got:expr, $exp:expr) => {{
            let (g, e) = ($got, $exp);
            calls += 1;
            log.push($desc);
            if g != e {
                let shown: Vec<String> = log.iter().rev().take(12).rev().cloned().collect();
                return Err(format!("after calls [{}]: got {:?}, want {:?}", shown.join(", "), g, e));
            }
        }};
    }
    for _ in 0..max_calls {
        let remaining = model.clone().count();
        let k = rng.usize_below(remaining + 2).min(rng.usize_below(4));
        match rng.below(8) {
            0 | 1 => {
                let (g, e) = (enter_call(|| it.next()), model.next());
                let done = e.is_none();
                cmp!("next()".to_string(), g, e);
                if done {
                    return Ok(calls);
                }
            }
            2 | 3 => {
                let (g, e) = (enter_call(|| it.next_back()), model.next_back());
                let done = e.is_none();
                cmp!("next_back()".to_string(), g, e);
                if done {
                    return Ok(calls);
                }
            }
            4 => {
                let (g, e) = (enter_call(|| it.nth_back(k)), model.nth_back(k));
                let done = e.is_none();
                cmp!(format!("nth_back({})", k), g, e);
                if done {
                    return Ok(calls);
                }
            }
            5 => {
                let (g, e) = (enter_call(|| it.nth(k)), model.nth(k));
                let done = e.is_none();
                cmp!(format!("nth({})", k), g, e);
                if done {
                    return Ok(calls);
                }
            }
            6 => {
                let g: Vec<T> = enter_call(|| it.rev().collect());
                let e: Vec<T> = model.rev().collect();
                cmp!("rev().collect()".to_string(), g, e);
                return Ok(calls);
            }
            _ => {
                let g: Vec<T> = enter_call(|| it.rfold(Vec::new(), |mut acc, x| {
                    acc.push(x);
                    acc
                }));
                let e: Vec<T> = model.rfold(Vec::new(), |mut acc, x| {
                    acc.push(x);
                    acc
                });
                cmp!("rfold(push)".to_string(), g, e);
                return Ok(calls);
            }
        }
    }
    Ok(calls)
}

fn enter_call<R>(f: impl FnOnce() -> R) -> R {
    enter_lib();
    let r = f();
    leave_lib();
    r
}
