//! mintmon - runtime monitor for C06: `Modular<M>` is the ring Z/M with canonical representatives and
//! true inverses.
//!
//! The modulus is a const generic, so "all moduli" is a macro-instantiated list (every M in 2..=48 and
//! a list of large ones, see `moduli!`). The generic part of the engine (`exec::<M>`) only *calls* the
//! library and hands back what it observed (`inner()` values, strings, booleans); the oracle is not
//! generic and works on the runtime modulus with `rem_euclid` in i128, an own extended Euclid and an
//! own square-and-multiply in u128.
//!
//!   mintmon [--tier quick|thorough] [--seed N] [--threads K] [--out result.json]
//!   mintmon --case "<M>:<op>:<x>:<y>"      re-run one operation verbosely
//!       op in new add sub mul div inv neg pow add_assign sub_assign mul_assign div_assign eq
//!             display debug write read consts
//!       x, y decimal: the i64 handed to `Modular::new` for the operand(s) (a residue in the
//!       generated workloads); for new/display/debug/write: x = the i64 argument; for read: x = the i64
//!       whose text is read, y = text variant 0..=2; for pow: x = base, y = exponent (u64);
//!       for eq: both i64 arguments.

use common::{catch, lib, mix, Engine, Json, Report, Rng, WorkQueue};
use rlib_io::{Reader, Writer};
use rlib_mint::Modular;
use std::cell::RefCell;
use std::rc::Rc;

// ------------------------------------------------------------------------------------------------
// operations

#[derive(Clone, Copy, PartialEq, Eq, Debug)]
enum Op {
    New,
    Add,
    Sub,
    Mul,
    Div,
    Inv,
    Neg,
    Pow,
    AddAssign,
    SubAssign,
    MulAssign,
    DivAssign,
    Eq,
    Display,
    Debug,
    Write,
    Read,
    Consts,
}
use Op::*;

const OPS: [Op; 18] = [
    New, Add, Sub, Mul, Div, Inv, Neg, Pow, AddAssign, SubAssign, MulAssign, DivAssign, Eq, Display, Debug, Write, Read,
    Consts,
];
const BINARY: [Op; 8] = [Add, Sub, Mul, Div, AddAssign, SubAssign, MulAssign, DivAssign];

impl Op {
    fn name(self) -> &'static str {
        match self {
            New => "new",
            Add => "add",
            Sub => "sub",
            Mul => "mul",
            Div => "div",
            Inv => "inv",
            Neg => "neg",
            Pow => "pow",
            AddAssign => "add_assign",
            SubAssign => "sub_assign",
            MulAssign => "mul_assign",
            DivAssign => "div_assign",
            Eq => "eq",
            Display => "display",
            Debug => "debug",
            Write => "write",
            Read => "read",
            Consts => "consts",
        }
    }
    fn parse(s: &str) -> Option<Op> {
        OPS.iter().cloned().find(|o| o.name() == s)
    }
    /// `a` is turned into a Modular operand whose representative is observed
    fn uses_a(self) -> bool {
        !matches!(self, New | Read | Consts)
    }
    /// `b` is turned into a Modular operand
    fn uses_b(self) -> bool {
        matches!(self, Add | Sub | Mul | Div | AddAssign | SubAssign | MulAssign | DivAssign | Eq)
    }
}

#[derive(Clone, Copy, Debug)]
struct Case {
    m: u32,
    op: Op,
    a: i64,
    /// second operand: i64 bit pattern for operand-like uses, the exponent for pow, the text variant for read
    b: u64,
}

impl Case {
    fn b_str(&self) -> String {
        if self.op == Pow {
            self.b.to_string()
        } else {
            (self.b as i64).to_string()
        }
    }
    fn replay(&self) -> Vec<String> {
        vec!["--case".into(), format!("{}:{}:{}:{}", self.m, self.op.name(), self.a, self.b_str())]
    }
}

/// What one library operation showed.
#[derive(Default, Debug, Clone)]
struct Obs {
    /// representative of the first / second operand as constructed by `Modular::new`
    a: u32,
    b: u32,
    /// representative of the result and of auxiliary results (see `exec`)
    r0: u32,
    r1: u32,
    r2: u32,
    f0: bool,
    f1: bool,
    s: String,
}

struct Sink(Rc<RefCell<Vec<u8>>>);
impl std::io::Write for Sink {
    fn write(&mut self, buf: &[u8]) -> std::io::Result<usize> {
        self.0.borrow_mut().extend_from_slice(buf);
        Ok(buf.len())
    }
    fn flush(&mut self) -> std::io::Result<()> {
        Ok(())
    }
}

/// the text handed to the Reader for the i64 `v`
fn read_text(v: i64, variant: u64) -> String {
    match variant % 3 {
        0 => format!("{}", v),
        1 => format!("{}\n", v),
        _ => format!(" \n{} 7\n", v),
    }
}

/// The only generic code: calls into the library, no judgement.
fn exec<const M: u32>(op: Op, a: i64, b: u64) -> Obs {
    let mut o = Obs::default();
    let nw = |v: i64| Modular::<M>::new(v);
    match op {
        New => o.r0 = nw(a).inner(),
        Add | Sub | Mul | Div => {
            let x = nw(a);
            let y = nw(b as i64);
            o.a = x.inner();
            o.b = y.inner();
            let r = match op {
                Add => x + y,
                Sub => x - y,
                Mul => x * y,
                _ => x / y,
            };
            o.r0 = r.inner();
            if op == Div {
                o.r1 = (r * y).inner();
                o.r2 = (x * y.inv()).inner();
            }
        }
        AddAssign | SubAssign | MulAssign | DivAssign => {
            let mut x = nw(a);
            let y = nw(b as i64);
            o.a = x.inner();
            o.b = y.inner();
            match op {
                AddAssign => x += y,
                SubAssign => x -= y,
                MulAssign => x *= y,
                _ => x /= y,
            }
            o.r0 = x.inner();
            if op == DivAssign {
                x *= y;
                o.r1 = x.inner();
                o.r2 = o.r0;
            }
        }
        Inv => {
            let y = nw(a);
            o.a = y.inner();
            let i = y.inv();
            o.r0 = i.inner();
            let p = y * i;
            o.r1 = p.inner();
            o.f0 = p == Modular::<M>::ONE;
        }
        Neg => {
            let x = nw(a);
            o.a = x.inner();
            o.r0 = (-x).inner();
        }
        Pow => {
            let x = nw(a);
            o.a = x.inner();
            o.r0 = x.pow(b).inner();
            // related calls straight afterwards: the same base to the powers 0 and 1 (whatever the call remembers about
            // its last base or exponent must not answer these), then the first call again
            o.r1 = x.pow(0).inner();
            o.r2 = x.pow(1).inner();
            o.f0 = x.pow(b).inner() == o.r0;
        }
        Eq => {
            let x = nw(a);
            let y = nw(b as i64);
            o.a = x.inner();
            o.b = y.inner();
            o.f0 = x == y;
            o.f1 = x != y;
        }
        Display => {
            let x = nw(a);
            o.a = x.inner();
            o.s = format!("{}", x);
        }
        Debug => {
            let x = nw(a);
            o.a = x.inner();
            o.s = format!("{:?}", x);
        }
        Write => {
            let x = nw(a);
            o.a = x.inner();
            let sink = Rc::new(RefCell::new(Vec::new()));
            {
                let mut w = Writer::new(Box::new(Sink(sink.clone())));
                w.write(&x);
                w.flush();
            }
            o.s = String::from_utf8_lossy(&sink.borrow()).into_owned();
        }
        Read => {
            let text = read_text(a, b);
            let mut r = Reader::new(Box::new(std::io::Cursor::new(text.into_bytes())));
            let x: Modular<M> = r.read();
            o.r0 = x.inner();
        }
        Consts => {
            o.r0 = Modular::<M>::md();
            o.r1 = Modular::<M>::ZERO.inner();
            o.r2 = Modular::<M>::ONE.inner();
            o.f0 = Modular::<M>::ZERO == nw(0);
            o.f1 = Modular::<M>::ONE == nw(1);
        }
    }
    o
}

type ExecFn = fn(Op, i64, u64) -> Obs;

// ------------------------------------------------------------------------------------------------
// the instantiated moduli

macro_rules! moduli {
    ($mac:ident) => {
        $mac! {
            // small: exhaustive
            2, 3, 4, 5, 6, 7, 8, 9, 10, 11, 12, 13, 14, 15, 16, 17, 18, 19, 20, 21, 22, 23, 24, 25, 26, 27, 28, 29,
            30, 31, 32, 33, 34, 35, 36, 37, 38, 39, 40, 41, 42, 43, 44, 45, 46, 47, 48,
            // competition primes
            998244353, 1000000007, 1000000009,
            // 2^31-1 (prime) and 2^31-2 .. 2^31-20
            2147483647, 2147483646, 2147483645, 2147483644, 2147483643, 2147483642, 2147483641, 2147483640,
            2147483639, 2147483638, 2147483637, 2147483636, 2147483635, 2147483634, 2147483633, 2147483632,
            2147483631, 2147483630, 2147483629, 2147483628,
            // 2^30, 2^30-1, 2^30+1, 2^16, 2^16+1
            1073741824, 1073741823, 1073741825, 65536, 65537,
            // 46337^2, 46340*46341, 2*3*5*..*23, 10^9+6
            2147117569, 2147441940, 223092870, 1000000006,
            // more: 2^31-1-2^16, 3*2^29, (2^31+1)/3 prime, NTT primes 7*2^26+1, 5*2^25+1, 15*2^27+1, 127*2^24+1,
            // 46340^2, (2^32-1)/3, prime just above 2^30, 10^6+3, 7^2, 2^8+1, 2^15
            2147418111, 1610612736, 715827883, 469762049, 167772161, 2013265921, 2130706433,
            2147395600, 1431655765, 1073741827, 1000003, 49, 257, 32768,
            // where products of residues cross a floating-point or integer width: around 2^26.5 (M^2 ~ 2^53), 2^27, 2^26,
            // 2^24 (f32), ceil(sqrt(2^31)), 2^16 - 1 and its largest prime, 10^8 + 7, 10^9 + 21 and 10^9 + 33 (primes)
            94906249, 94906265, 94906266, 94906267, 100000007, 134217727, 134217728, 134217689, 67108864, 67108859,
            16777216, 16777213, 16777259, 46341, 46340, 46349, 65535, 65521, 1000000021, 1000000033,
            // composites that pass for primes: Carmichael numbers (Fermat's little theorem holds for every unit) and strong
            // pseudoprimes to the bases 2 / 2,3 / 2,3,5 (a modulus classified by a cheap primality test is classified wrongly)
            561, 1105, 1729, 2465, 2821, 6601, 8911, 41041, 825265, 321197185, 2047, 3277, 4033, 1373653, 25326001,
            161304001, 960946321, 1157839381,
            // every power of two from 2^17 to 2^29 (2^16 and 2^30 are above), and 3 * 2^k
            131072, 262144, 524288, 1048576, 2097152, 4194304, 8388608, 33554432, 268435456, 536870912, 805306368, 12582912
        }
    };
}

macro_rules! build_table {
    ($($m:literal),* $(,)?) => {
        &[ $( ($m as u32, exec::<$m> as ExecFn) ),* ]
    };
}

static TABLE: &[(u32, ExecFn)] = moduli!(build_table);

const SMALL_MAX: u32 = 48;

fn lookup(m: u32) -> Option<ExecFn> {
    TABLE.iter().find(|t| t.0 == m).map(|t| t.1)
}

// ------------------------------------------------------------------------------------------------
// oracle (runtime modulus, independent of the library)

fn rem(v: i128, m: u32) -> u32 {
    v.rem_euclid(m as i128) as u32
}

fn own_gcd(mut a: u64, mut b: u64) -> u64 {
    while b != 0 {
        let t = a % b;
        a = b;
        b = t;
    }
    a
}

/// inverse of y modulo m by the extended Euclid in i128, `None` when gcd(y, m) != 1
fn own_inv(y: u32, m: u32) -> Option<u32> {
    let (mut r0, mut r1) = (m as i128, y as i128);
    let (mut t0, mut t1) = (0i128, 1i128);
    while r1 != 0 {
        let q = r0 / r1;
        let r2 = r0 - q * r1;
        r0 = r1;
        r1 = r2;
        let t2 = t0 - q * t1;
        t0 = t1;
        t1 = t2;
    }
    if r0 != 1 {
        None
    } else {
        Some(t0.rem_euclid(m as i128) as u32)
    }
}

/// x^e mod m, square-and-multiply in u128 (x^0 = 1, the empty product)
fn own_pow(x: u32, mut e: u64, m: u32) -> u32 {
    let m = m as u128;
    let mut res: u128 = 1 % m;
    let mut base: u128 = x as u128 % m;
    while e != 0 {
        if e & 1 == 1 {
            res = res * base % m;
        }
        base = base * base % m;
        e >>= 1;
    }
    res as u32
}

/// does the true integer power x^e lie outside [0, m)?
fn int_pow_reaches(x: u32, e: u64, m: u32) -> bool {
    if x < 2 || e == 0 {
        return false;
    }
    let mut p: u128 = 1;
    let mut k = 0u64;
    while k < e {
        p *= x as u128;
        if p >= m as u128 {
            return true;
        }
        k += 1;
    }
    false
}

fn isqrt(n: u64) -> u64 {
    let mut s = (n as f64).sqrt() as u64;
    while s * s > n {
        s -= 1;
    }
    while (s + 1) * (s + 1) <= n {
        s += 1;
    }
    s
}

#[derive(Default, Debug)]
struct Want {
    r0: u32,
    s: String,
    eq: bool,
}

fn want_of(c: &Case, xa: u32, xb: u32) -> Result<Want, String> {
    let m = c.m;
    let mut w = Want::default();
    match c.op {
        New | Read => w.r0 = xa,
        Add | AddAssign => w.r0 = rem(xa as i128 + xb as i128, m),
        Sub | SubAssign => w.r0 = rem(xa as i128 - xb as i128, m),
        Mul | MulAssign => w.r0 = rem(xa as i128 * xb as i128, m),
        Neg => w.r0 = rem(-(xa as i128), m),
        Div | DivAssign => {
            let iy = own_inv(xb, m).ok_or("oracle: inverse of a coprime residue not found")?;
            if rem(iy as i128 * xb as i128, m) != 1 {
                return Err(format!("oracle: own_inv({}, {}) = {} is not an inverse", xb, m, iy));
            }
            w.r0 = rem(xa as i128 * iy as i128, m);
            if rem(w.r0 as i128 * xb as i128, m) != xa {
                return Err(format!("oracle: quotient {}/{} mod {} does not multiply back", xa, xb, m));
            }
        }
        Inv => {
            let iy = own_inv(xa, m).ok_or("oracle: inverse of a coprime residue not found")?;
            if rem(iy as i128 * xa as i128, m) != 1 {
                return Err(format!("oracle: own_inv({}, {}) = {} is not an inverse", xa, m, iy));
            }
            w.r0 = iy;
        }
        Pow => w.r0 = own_pow(xa, c.b, m),
        Eq => w.eq = (c.a as i128 - c.b as i64 as i128).rem_euclid(m as i128) == 0,
        Display | Debug | Write => w.s = xa.to_string(),
        Consts => {}
    }
    Ok(w)
}

/// "the true integer result needed a reduction"
fn nontrivial(c: &Case, xa: u32, xb: u32) -> bool {
    let m = c.m as i128;
    let outside = |v: i64| (v as i128) < 0 || (v as i128) >= m;
    match c.op {
        New | Read | Display | Debug | Write => outside(c.a),
        Add | AddAssign => xa as i128 + xb as i128 >= m,
        Sub | SubAssign => xa < xb,
        Mul | MulAssign => xa as i128 * xb as i128 >= m,
        Neg => xa != 0,
        Div | DivAssign => xb >= 2 && xa != 0,
        Inv => xa >= 2,
        Pow => int_pow_reaches(xa, c.b, c.m),
        Eq => outside(c.a) || outside(c.b as i64),
        Consts => false,
    }
}

const RULE: &str = "a case is non-trivial when the unreduced integer result lies outside [0,M): new/read/display/debug/write: \
the i64 argument is outside [0,M); add: x+y>=M; sub: x<y; mul: x*y>=M; neg: x!=0; pow: the integer x^e>=M; \
eq: at least one of the two i64 arguments is outside [0,M); div: y>=2 and x!=0 (a modular inverse was needed); \
inv: y>=2. Hash = (M, op, operands).";

struct Fail {
    kind: String,
    what: String,
    got: Json,
    want: Json,
}

fn fail(kind: &str, what: &str, got: impl Into<Json>, want: impl Into<Json>) -> Option<Fail> {
    Some(Fail { kind: kind.to_string(), what: what.to_string(), got: got.into(), want: want.into() })
}

fn judge(c: &Case, xa: u32, xb: u32, w: &Want, o: &Obs) -> Option<Fail> {
    let m = c.m;
    let op = c.op.name();
    if c.op == Consts {
        if o.r0 != m {
            return fail(op, "md() != M", o.r0, m);
        }
        if o.r1 != 0 {
            return fail(op, "ZERO.inner() != 0", o.r1, 0);
        }
        if o.r2 != 1 % m {
            return fail(op, "ONE.inner() != 1 % M", o.r2, 1 % m);
        }
        if !o.f0 {
            return fail(op, "ZERO != new(0)", false, true);
        }
        if !o.f1 {
            return fail(op, "ONE != new(1)", false, true);
        }
        return None;
    }
    // canonical representative after every operation
    for (name, v) in [("first operand", o.a), ("second operand", o.b), ("result", o.r0), ("auxiliary result 1", o.r1), ("auxiliary result 2", o.r2)] {
        if v >= m {
            return fail("canonical", &format!("{}: inner() of the {} is not below M", op, name), v, format!("< {}", m));
        }
    }
    if c.op.uses_a() && o.a != xa {
        return fail("new", &format!("{}: Modular::new({}) (first operand) has the wrong representative", op, c.a), o.a, xa);
    }
    if c.op.uses_b() && o.b != xb {
        return fail("new", &format!("{}: Modular::new({}) (second operand) has the wrong representative", op, c.b as i64), o.b, xb);
    }
    match c.op {
        New | Read | Add | Sub | Mul | Neg | Pow | AddAssign | SubAssign | MulAssign => {
            if o.r0 != w.r0 {
                return fail(op, "result is not the representative of the true integer result", o.r0, w.r0);
            }
            if c.op == Pow {
                if o.r1 != 1 % m {
                    return fail(op, "x.pow(0) directly after x.pow(e) is not ONE", o.r1, 1 % m);
                }
                if o.r2 != xa {
                    return fail(op, "x.pow(1) directly after x.pow(e), x.pow(0) is not x", o.r2, xa);
                }
                if !o.f0 {
                    return fail(op, "x.pow(e) repeated after x.pow(0), x.pow(1) gives another result", false, true);
                }
            }
        }
        Div | DivAssign => {
            if o.r0 != w.r0 {
                return fail(op, "x / y is not the residue q with q * y = x (y coprime to M)", o.r0, w.r0);
            }
            if o.r1 != xa {
                return fail(op, "(x / y) * y != x (y coprime to M)", o.r1, xa);
            }
            if o.r2 != o.r0 {
                return fail(op, "x / y != x * y.inv()", o.r0, o.r2);
            }
        }
        Inv => {
            if o.r0 != w.r0 {
                return fail(op, "y.inv() is not the inverse of y (y coprime to M)", o.r0, w.r0);
            }
            if o.r1 != 1 % m || !o.f0 {
                return fail(op, "y * y.inv() != ONE", o.r1, 1 % m);
            }
        }
        Eq => {
            if o.f0 != w.eq {
                return fail(op, "new(a) == new(b) disagrees with a = b (mod M)", o.f0, w.eq);
            }
            if o.f1 == w.eq {
                return fail(op, "new(a) != new(b) disagrees with a = b (mod M)", o.f1, !w.eq);
            }
        }
        Display | Debug | Write => {
            if o.s != w.s {
                return fail(op, "output is not the decimal text of the canonical representative", o.s.as_str(), w.s.as_str());
            }
        }
        Consts => {}
    }
    None
}

// ------------------------------------------------------------------------------------------------
// per-shard state

const CLASSES: [&str; 3] = ["small_exhaustive", "large_boundary", "large_random"];
const SMALL: usize = 0;
const LBOUND: usize = 1;
const LRAND: usize = 2;

#[derive(Default)]
struct Tally {
    evals: u64,
    ops: [u64; 18],
    class: [u64; 3],
    nontrivial: u64,
    coprime_div: u64,
    noncoprime: u64,
}

struct Shard<'a> {
    rep: &'a mut Report,
    t: Tally,
    /// how many more non-trivial hashes this shard stores (memory bound; all are counted)
    see_left: u64,
    verbose: bool,
    sample_all: bool,
}

impl<'a> Shard<'a> {
    fn new(rep: &'a mut Report, see_left: u64) -> Self {
        Shard { rep, t: Tally::default(), see_left, verbose: false, sample_all: false }
    }
    fn flush(&mut self) {
        let t = std::mem::take(&mut self.t);
        self.rep.count("evaluations", t.evals);
        for (i, op) in OPS.iter().enumerate() {
            if t.ops[i] > 0 {
                self.rep.count(&format!("op_{}", op.name()), t.ops[i]);
            }
        }
        for (i, c) in CLASSES.iter().enumerate() {
            if t.class[i] > 0 {
                self.rep.count(&format!("class_{}", c), t.class[i]);
            }
        }
        self.rep.count("nontrivial_total", t.nontrivial);
        self.rep.count("coprime_divisions", t.coprime_div);
        self.rep.count("noncoprime_skipped", t.noncoprime);
    }
}

fn case_json(c: &Case, xa: u32, xb: u32) -> Json {
    let mut j = Json::obj().set("M", c.m).set("op", c.op.name());
    match c.op {
        New | Display | Debug | Write => j.push_kv("arg", c.a),
        Read => {
            j.push_kv("arg", c.a);
            j.push_kv("text", read_text(c.a, c.b));
        }
        Pow => {
            j.push_kv("x", xa);
            j.push_kv("exponent", c.b);
        }
        Eq => {
            j.push_kv("a", c.a);
            j.push_kv("b", c.b as i64);
        }
        Inv | Neg => j.push_kv("x", xa),
        Consts => {}
        _ => {
            j.push_kv("x", xa);
            j.push_kv("y", xb);
        }
    }
    j
}

/// One checked operation instance.
fn run_case(sh: &mut Shard, f: ExecFn, c: Case, class: usize) {
    let m = c.m;
    let xa = rem(c.a as i128, m);
    let xb = rem(c.b as i64 as i128, m);
    // the property speaks about division / inverse only for y coprime to M: everything else is not executed
    let divisor = match c.op {
        Div | DivAssign => Some(xb),
        Inv => Some(xa),
        _ => None,
    };
    if let Some(y) = divisor {
        if y == 0 || own_gcd(y as u64, m as u64) != 1 {
            sh.t.noncoprime += 1;
            if sh.verbose {
                eprintln!("  M={} {}: divisor {} is not coprime to M - not executed, not judged", m, c.op.name(), y);
            }
            return;
        }
        sh.t.coprime_div += 1;
    }
    // expected value first, outside the library call
    let w = match want_of(&c, xa, xb) {
        Ok(w) => w,
        Err(e) => {
            sh.rep.inconclusive(e);
            return;
        }
    };
    sh.t.evals += 1;
    sh.t.ops[OPS.iter().position(|o| *o == c.op).unwrap()] += 1;
    sh.t.class[class] += 1;
    if nontrivial(&c, xa, xb) {
        sh.t.nontrivial += 1;
        if sh.see_left > 0 {
            sh.see_left -= 1;
            sh.rep.see("nontrivial", mix(&[m as u64, c.op as u64, c.a as u64, c.b]));
        }
    }
    let res = catch(|| lib!(f(c.op, c.a, c.b)));
    match res {
        Err(p) => {
            if sh.verbose {
                eprintln!("  {} -> PANIC {} at {}:{} (in_lib={})", case_json(&c, xa, xb).dump(), p.msg, p.file, p.line, p.in_lib);
            }
            if p.in_lib {
                sh.rep.violation(
                    format!("panic:{}:M{}", c.op.name(), m),
                    case_json(&c, xa, xb)
                        .set("what", "the library panicked on a lawful operation")
                        .set("panic", p.msg.as_str())
                        .set("at", format!("{}:{}", p.file, p.line))
                        .set("want", format!("{:?}", w)),
                    c.replay(),
                );
            } else {
                sh.rep.inconclusive(format!("harness panic at {}:{}: {}", p.file, p.line, p.msg));
            }
        }
        Ok(o) => {
            let verdict = judge(&c, xa, xb, &w, &o);
            if sh.verbose {
                eprintln!("  case     {}", case_json(&c, xa, xb).dump());
                eprintln!("  observed {:?}", o);
                eprintln!("  expected {:?}", w);
                match &verdict {
                    None => eprintln!("  verdict  ok"),
                    Some(fl) => eprintln!("  verdict  VIOLATION {}: {} (got {}, want {})", fl.kind, fl.what, fl.got.dump(), fl.want.dump()),
                }
            }
            match verdict {
                None => {
                    if sh.sample_all && sh.rep.wants_sample() {
                        let got: Json = match c.op {
                            Display | Debug | Write => o.s.as_str().into(),
                            Eq => o.f0.into(),
                            _ => o.r0.into(),
                        };
                        let want: Json = match c.op {
                            Display | Debug | Write => w.s.as_str().into(),
                            Eq => w.eq.into(),
                            _ => w.r0.into(),
                        };
                        sh.rep.sample(case_json(&c, xa, xb).set("got", got).set("want", want));
                    }
                }
                Some(fl) => {
                    sh.rep.violation(
                        format!("{}:M{}", fl.kind, m),
                        case_json(&c, xa, xb)
                            .set("what", fl.what.as_str())
                            .set("got", fl.got)
                            .set("want", fl.want)
                            .set("observed", format!("{:?}", o)),
                        c.replay(),
                    );
                }
            }
        }
    }
}

// ------------------------------------------------------------------------------------------------
// operand lists

fn boundary_residues(m: u32) -> Vec<i64> {
    let mm = m as i64;
    let s = isqrt(m as u64) as i64;
    let mut v: Vec<i64> = Vec::new();
    for x in [0, 1, 2, mm / 2, mm / 2 + 1, mm - 2, mm - 1, s - 1, s, s + 1] {
        if x >= 0 && x < mm && !v.contains(&x) {
            v.push(x);
        }
    }
    // operands at the square roots of the integer widths (a product of two of them is the first that no longer fits)
    for x in [181i64, 182, 255, 256, 257, 32767, 32768, 46339, 46340, 46341, 46342, 65535, 65536, 65537, 92681, 92682, 16777215, 16777216, 16777217, 94906265, 94906266] {
        if x < mm && !v.contains(&x) {
            v.push(x);
        }
    }
    // zero divisors and nilpotent elements of composite moduli: the square root of a square modulus and its multiples,
    // cofactors of small prime factors (products of two of them are exact multiples of M: the reduced result is 0)
    if s * s == mm {
        for x in [s, 2 * s, mm - s, 3 * s] {
            if x > 0 && x < mm && !v.contains(&x) {
                v.push(x);
            }
        }
    }
    for p in [2i64, 3, 5, 7, 11, 13] {
        if mm % p == 0 && mm > p {
            for x in [p, mm / p, mm - mm / p, mm - p] {
                if x > 0 && x < mm && !v.contains(&x) {
                    v.push(x);
                }
            }
        }
    }
    // worst cases of the Euclidean algorithm (inverse / division): residues next to M/phi and M/phi^2, whose continued
    // fraction with M has only small partial quotients, so the number of division steps is maximal (about 1.44*log2 M)
    let phi = 0.618_033_988_749_894_9_f64;
    for base in [(mm as f64 * phi) as i64, (mm as f64 * phi * phi) as i64, (mm as f64 * (1.0 - phi * phi * phi)) as i64] {
        for d in -2..=2i64 {
            let x = base + d;
            if x >= 0 && x < mm && !v.contains(&x) {
                v.push(x);
            }
        }
    }
    v
}

fn boundary_ctor_args(m: u32) -> Vec<i64> {
    let mm = m as i64;
    let mut v: Vec<i64> = Vec::new();
    for x in [
        i64::MIN,
        i64::MIN + 1,
        -(1i64 << 32) - 1,
        -(1i64 << 32),
        -(1i64 << 32) + 1,
        -mm - 1,
        -mm,
        -mm + 1,
        -1,
        0,
        1,
        mm - 1,
        mm,
        mm + 1,
        2 * mm - 1,
        2 * mm,
        (1i64 << 31) - 1,
        1i64 << 31,
        (1i64 << 32) - 1,
        1i64 << 32,
        (1i64 << 32) + 1,
        1i64 << 62,
        i64::MAX - 1,
        i64::MAX,
    ] {
        if !v.contains(&x) {
            v.push(x);
        }
    }
    // exact multiples of M (and their neighbours) of every decimal length, both signs: the largest multiple below 10^k and
    // the smallest one above it, up to the ends of i64
    let mut p10: i128 = 10;
    while p10 <= i64::MAX as i128 {
        let below = (p10 - 1) / mm as i128 * mm as i128;
        let above = below + mm as i128;
        for t in [below, above] {
            for d in [-1i128, 0, 1] {
                for sgn in [1i128, -1] {
                    let x = (t + d) * sgn;
                    if x >= i64::MIN as i128 && x <= i64::MAX as i128 && !v.contains(&(x as i64)) {
                        v.push(x as i64);
                    }
                }
            }
        }
        p10 *= 10;
    }
    for t in [i64::MAX as i128 / mm as i128 * mm as i128, (i64::MIN as i128 / mm as i128) * mm as i128] {
        for d in [-1i128, 0, 1] {
            let x = t + d;
            if x >= i64::MIN as i128 && x <= i64::MAX as i128 && !v.contains(&(x as i64)) {
                v.push(x as i64);
            }
        }
    }
    v
}

fn boundary_exponents(m: u32) -> Vec<u64> {
    let mm = m as u64;
    let mut v: Vec<u64> = Vec::new();
    for e in [0, 1, 2, 3, 4, 5, 6, 7, 8, 15, 16, 17, 31, 32, 33, 63, 64, 65, mm - 2, mm - 1, mm, mm + 1, 1u64 << 32, 1u64 << 63, u64::MAX] {
        if !v.contains(&e) {
            v.push(e);
        }
    }
    v
}

fn rand_residue(rng: &mut Rng, m: u32) -> i64 {
    let mm = m as u64;
    let r = match rng.below(8) {
        0 => mm - 1 - rng.below(mm.min(16)),
        1 => rng.below(mm.min(16)),
        2 => (mm / 2 + rng.below(17)).saturating_sub(8),
        3 => (isqrt(mm) + rng.below(17)).saturating_sub(8),
        _ => rng.below(mm),
    };
    (r % mm) as i64
}

fn clamp_i64(v: i128) -> i64 {
    v.clamp(i64::MIN as i128, i64::MAX as i128) as i64
}

fn rand_i64(rng: &mut Rng, m: u32) -> i64 {
    let mm = m as i128;
    match rng.below(8) {
        0 | 1 => rng.next_u64() as i64,
        2 => rng.range_i64(-4 * m as i64, 4 * m as i64),
        3 => {
            // a multiple of M plus a tiny offset, anywhere in the i64 range
            let kmax = (i64::MAX as i128 / mm) as i64;
            let k = rng.range_i64(-kmax, kmax) as i128;
            clamp_i64(k * mm + rng.range_i64(-2, 2) as i128)
        }
        4 => {
            let k = rng.below(63);
            let v = (1i128 << k) + rng.range_i64(-2, 2) as i128;
            clamp_i64(if rng.chance(1, 2) { v } else { -v })
        }
        5 => {
            if rng.chance(1, 2) {
                i64::MIN + rng.below(1000) as i64
            } else {
                i64::MAX - rng.below(1000) as i64
            }
        }
        6 => {
            let base: i128 = if rng.chance(1, 2) { 1 << 31 } else { 1 << 32 };
            let v = base * rng.range_i64(1, 3) as i128 + rng.range_i64(-3, 3) as i128;
            clamp_i64(if rng.chance(1, 2) { v } else { -v })
        }
        _ => {
            let v = (rng.next_u64() >> rng.below(64)) as i128;
            clamp_i64(if rng.chance(1, 2) { v } else { -v })
        }
    }
}

fn rand_exp(rng: &mut Rng, m: u32) -> u64 {
    match rng.below(8) {
        0 => rng.next_u64() >> rng.below(64),
        1 => {
            let k = rng.below(64);
            (1u64 << k).wrapping_add(rng.below(3)).wrapping_sub(1)
        }
        2 => (m as u64 + rng.below(7)).saturating_sub(3),
        3 => u64::MAX - rng.below(16),
        _ => rng.next_u64(),
    }
}

// ------------------------------------------------------------------------------------------------
// tasks

#[derive(Clone, Copy, Debug)]
enum Task {
    Small(usize),
    LargeBoundary(usize),
    LargeRandom(usize, u64),
}

const ROUNDS_PER_CHUNK: u64 = 128;
/// operations of one random round when every division is lawful (used for planning only)
const OPS_PER_ROUND: u64 = 14;

fn io_ops_on(sh: &mut Shard, f: ExecFn, m: u32, v: i64, class: usize) {
    for op in [Display, Debug, Write] {
        run_case(sh, f, Case { m, op, a: v, b: 0 }, class);
    }
}

fn task_small(sh: &mut Shard, idx: usize) {
    let (m, f) = TABLE[idx];
    let mm = m as i64;
    sh.rep.see("moduli_seen", m as u64);
    run_case(sh, f, Case { m, op: Consts, a: 0, b: 0 }, SMALL);
    // all operand pairs, all binary operators and their assigning forms
    for x in 0..mm {
        for y in 0..mm {
            for op in BINARY {
                run_case(sh, f, Case { m, op, a: x, b: y as u64 }, SMALL);
            }
        }
    }
    for x in 0..mm {
        run_case(sh, f, Case { m, op: Neg, a: x, b: 0 }, SMALL);
        run_case(sh, f, Case { m, op: Inv, a: x, b: 0 }, SMALL);
    }
    // constructor arguments: all of -3M..=3M and the boundary list
    let mut args: Vec<i64> = (-3 * mm..=3 * mm).collect();
    for v in boundary_ctor_args(m) {
        if !args.contains(&v) {
            args.push(v);
        }
    }
    for (i, &v) in args.iter().enumerate() {
        run_case(sh, f, Case { m, op: New, a: v, b: 0 }, SMALL);
        run_case(sh, f, Case { m, op: Read, a: v, b: (i % 3) as u64 }, SMALL);
        io_ops_on(sh, f, m, v, SMALL);
    }
    // pow: every base, exponents 0..=2M and the boundary exponents
    let mut exps: Vec<u64> = (0..=2 * m as u64).collect();
    for e in boundary_exponents(m) {
        if !exps.contains(&e) {
            exps.push(e);
        }
    }
    for x in 0..mm {
        for &e in &exps {
            run_case(sh, f, Case { m, op: Pow, a: x, b: e }, SMALL);
        }
    }
    // equality: a in -3M..=3M against b in -M..=M, and the boundary list against itself
    for a in -3 * mm..=3 * mm {
        for b in -mm..=mm {
            run_case(sh, f, Case { m, op: Eq, a, b: b as u64 }, SMALL);
        }
    }
    let bl = boundary_ctor_args(m);
    for &a in &bl {
        for &b in &bl {
            run_case(sh, f, Case { m, op: Eq, a, b: b as u64 }, SMALL);
        }
    }
}

fn task_large_boundary(sh: &mut Shard, idx: usize) {
    let (m, f) = TABLE[idx];
    sh.rep.see("moduli_seen", m as u64);
    run_case(sh, f, Case { m, op: Consts, a: 0, b: 0 }, LBOUND);
    let res = boundary_residues(m);
    for &x in &res {
        for &y in &res {
            for op in BINARY {
                run_case(sh, f, Case { m, op, a: x, b: y as u64 }, LBOUND);
            }
        }
    }
    for &x in &res {
        run_case(sh, f, Case { m, op: Neg, a: x, b: 0 }, LBOUND);
        run_case(sh, f, Case { m, op: Inv, a: x, b: 0 }, LBOUND);
        io_ops_on(sh, f, m, x, LBOUND);
    }
    // products whose remainder is M-1, M-2, 1 or 0 with both factors close to M (a quotient estimate that is off by one
    // shows exactly at the ends of the remainder range): y = t * x^-1 for x = M - d
    for d in 1..=48u32 {
        if d >= m {
            break;
        }
        let x = m - d;
        if let Some(ix) = own_inv(x, m) {
            for t in [m - 1, m - 2, 1, 2 % m] {
                let y = (t as u64 * ix as u64 % m as u64) as u32;
                sh.rep.inc("products_with_extreme_remainder");
                for op in [Mul, MulAssign, Div, DivAssign] {
                    run_case(sh, f, Case { m, op, a: x as i64, b: y as u64 }, LBOUND);
                    run_case(sh, f, Case { m, op, a: y as i64, b: x as u64 }, LBOUND);
                }
            }
        }
    }
    let args = boundary_ctor_args(m);
    for &v in &args {
        run_case(sh, f, Case { m, op: New, a: v, b: 0 }, LBOUND);
        for variant in 0..3 {
            run_case(sh, f, Case { m, op: Read, a: v, b: variant }, LBOUND);
        }
        io_ops_on(sh, f, m, v, LBOUND);
    }
    let exps = boundary_exponents(m);
    for &x in &res {
        for &e in &exps {
            run_case(sh, f, Case { m, op: Pow, a: x, b: e }, LBOUND);
        }
    }
    for &a in &args {
        for &b in &args {
            run_case(sh, f, Case { m, op: Eq, a, b: b as u64 }, LBOUND);
        }
    }
}

fn task_large_random(sh: &mut Shard, idx: usize, chunk: u64, seed: u64) {
    let (m, f) = TABLE[idx];
    let mm = m as i128;
    sh.rep.see("moduli_seen", m as u64);
    let mut rng = Rng::new(mix(&[seed, 0xC06, m as u64, chunk]));
    for round in 0..ROUNDS_PER_CHUNK {
        let x = rand_residue(&mut rng, m);
        let mut y = rand_residue(&mut rng, m);
        if round % 4 == 3 && x > 0 {
            // steer the product's remainder to an end of its range
            if let Some(ix) = own_inv(x as u32, m) {
                let t = *rng.pick(&[m - 1, m - 1, m - 2, 1]) as u64;
                y = (t * ix as u64 % m as u64) as i64;
                sh.rep.inc("products_with_extreme_remainder");
            }
        }
        for op in BINARY {
            run_case(sh, f, Case { m, op, a: x, b: y as u64 }, LRAND);
        }
        run_case(sh, f, Case { m, op: Neg, a: x, b: 0 }, LRAND);
        run_case(sh, f, Case { m, op: Inv, a: y, b: 0 }, LRAND);
        let e = rand_exp(&mut rng, m);
        run_case(sh, f, Case { m, op: Pow, a: x, b: e }, LRAND);
        let v = rand_i64(&mut rng, m);
        run_case(sh, f, Case { m, op: New, a: v, b: 0 }, LRAND);
        // equality: congruent partner, near-congruent partner or unrelated value
        let a = rand_i64(&mut rng, m);
        let b = match rng.below(4) {
            0 | 1 => {
                // a + k*M inside the i64 range
                let kmin = ((i64::MIN as i128 - a as i128) / mm) as i64;
                let kmax = ((i64::MAX as i128 - a as i128) / mm) as i64;
                let k = rng.range_i64(kmin, kmax) as i128;
                let mut b = a as i128 + k * mm;
                if rng.chance(1, 3) {
                    b += if rng.chance(1, 2) { 1 } else { -1 };
                }
                clamp_i64(b)
            }
            2 => rem(a as i128, m) as i64 + if rng.chance(1, 2) { 0 } else { 1 },
            _ => rand_i64(&mut rng, m),
        };
        run_case(sh, f, Case { m, op: Eq, a, b: b as u64 }, LRAND);
        let v = rand_i64(&mut rng, m);
        let c = match round % 4 {
            0 => Case { m, op: Display, a: v, b: 0 },
            1 => Case { m, op: Debug, a: v, b: 0 },
            2 => Case { m, op: Write, a: v, b: 0 },
            _ => Case { m, op: Read, a: v, b: rng.below(3) },
        };
        run_case(sh, f, c, LRAND);
    }
}

// ------------------------------------------------------------------------------------------------

fn self_check(rep: &mut Report) {
    let mut bad: Vec<String> = Vec::new();
    // the instantiated list
    for (i, t) in TABLE.iter().enumerate() {
        if t.0 < 2 || t.0 as u64 >= 1u64 << 31 {
            bad.push(format!("modulus {} outside [2, 2^31)", t.0));
        }
        if TABLE[..i].iter().any(|u| u.0 == t.0) {
            bad.push(format!("modulus {} instantiated twice", t.0));
        }
    }
    for m in 2..=SMALL_MAX {
        if lookup(m).is_none() {
            bad.push(format!("small modulus {} missing", m));
        }
    }
    // oracle against naive definitions
    if rem(-7, 5) != 3 || rem(i64::MIN as i128, 2147483647) != ((i64::MIN as i128) % 2147483647 + 2147483647) as u32 {
        bad.push("rem".into());
    }
    if own_gcd(12, 18) != 6 || own_gcd(0, 7) != 7 || own_gcd(17, 2147483647) != 1 {
        bad.push("own_gcd".into());
    }
    for m in [2u32, 7, 12, 48, 65536, 998244353, 2147483647, 2147483646] {
        for x in [0u32, 1, 2, 3, 5, m - 1, m / 2] {
            let x = x % m;
            // naive repeated multiplication
            let mut p: u128 = 1 % m as u128;
            for e in 0..40u64 {
                if own_pow(x, e, m) as u128 != p {
                    bad.push(format!("own_pow({}, {}, {})", x, e, m));
                }
                p = p * x as u128 % m as u128;
            }
            match own_inv(x, m) {
                Some(i) => {
                    if own_gcd(x as u64, m as u64) != 1 || (i as u128 * x as u128) % m as u128 != 1 || i >= m {
                        bad.push(format!("own_inv({}, {})", x, m));
                    }
                }
                None => {
                    if own_gcd(x as u64, m as u64) == 1 {
                        bad.push(format!("own_inv({}, {}) missing", x, m));
                    }
                }
            }
        }
    }
    if own_pow(3, 998244352, 998244353) != 1 || own_pow(2, u64::MAX, 2147483647) != own_pow(2, u64::MAX % 2147483646, 2147483647) {
        bad.push("own_pow (Fermat)".into());
    }
    if isqrt(2147117569) != 46337 || isqrt(2147117568) != 46336 || isqrt(2) != 1 {
        bad.push("isqrt".into());
    }
    if !int_pow_reaches(2, 31, 2147483647) || int_pow_reaches(2, 30, 2147483647) || int_pow_reaches(1, u64::MAX, 5) {
        bad.push("int_pow_reaches".into());
    }
    for b in bad {
        rep.inconclusive(format!("harness self-check failed: {}", b));
    }
}

fn main() {
    let eng = Engine::start("mintmon");
    let a = &eng.args;
    let thorough = a.thorough();
    let seed = a.seed();
    let threads = a.threads().max(1);
    let mut report = Report::new();
    self_check(&mut report);

    if let Some(case) = a.opt("case") {
        let parts: Vec<&str> = case.split(':').collect();
        if parts.len() != 4 {
            panic!("case = <M>:<op>:<x>:<y>");
        }
        let m: u32 = parts[0].parse().expect("modulus");
        let op = Op::parse(parts[1]).expect("unknown op");
        let x: i128 = parts[2].parse().expect("x");
        let y: i128 = parts[3].parse().expect("y");
        let f = lookup(m).unwrap_or_else(|| panic!("modulus {} is not in the instantiated list", m));
        let c = Case { m, op, a: x as i64, b: y as u64 };
        eprintln!("replay {}:{}:{}:{}", m, op.name(), c.a, c.b_str());
        let mut rep = Report::new();
        {
            let mut sh = Shard::new(&mut rep, 1);
            sh.verbose = true;
            run_case(&mut sh, f, c, if m <= SMALL_MAX { SMALL } else { LBOUND });
            sh.flush();
        }
        report.merge(rep);
        eng.finish(report);
    }

    let small: Vec<usize> = (0..TABLE.len()).filter(|&i| TABLE[i].0 <= SMALL_MAX).collect();
    let large: Vec<usize> = (0..TABLE.len()).filter(|&i| TABLE[i].0 > SMALL_MAX).collect();

    // a few literal samples (these are ordinary checked cases, too)
    {
        let mut rep = Report::new();
        let mut sh = Shard::new(&mut rep, 100);
        sh.sample_all = true;
        let p = 2147483647u32;
        for c in [
            Case { m: p, op: Mul, a: p as i64 - 1, b: p as u64 - 1 },
            Case { m: p, op: New, a: i64::MIN, b: 0 },
            Case { m: 2147483646, op: Sub, a: 0, b: 2147483645 },
            Case { m: 2147483629, op: Div, a: 1, b: 2147483628 },
            Case { m: 998244353, op: Pow, a: 3, b: u64::MAX },
            Case { m: 48, op: DivAssign, a: 5, b: 7 },
        ] {
            run_case(&mut sh, lookup(c.m).unwrap(), c, if c.m <= SMALL_MAX { SMALL } else { LBOUND });
        }
        sh.flush();
        report.merge(rep);
    }

    // plan
    let target_random: u64 = a.u64("random-ops", if thorough { 107_000_000 } else { 2_050_000 });
    let per_chunk = ROUNDS_PER_CHUNK * OPS_PER_ROUND;
    let chunks_per_modulus = (target_random + per_chunk * large.len() as u64 - 1) / (per_chunk * large.len() as u64);
    let mut tasks: Vec<Task> = Vec::new();
    for &i in small.iter().rev() {
        tasks.push(Task::Small(i));
    }
    for &i in &large {
        tasks.push(Task::LargeBoundary(i));
    }
    for ch in 0..chunks_per_modulus {
        for &i in &large {
            tasks.push(Task::LargeRandom(i, ch));
        }
    }
    let q = WorkQueue::new(tasks.len() as u64);
    let tasks = &tasks;
    let see_cap = 4_000_000 / threads as u64;
    let rep = common::run_sharded(threads, |_shard, rep| {
        rep.sample_cap = 0;
        let mut sh = Shard::new(rep, see_cap);
        while let Some(i) = q.take() {
            match tasks[i as usize] {
                Task::Small(idx) => task_small(&mut sh, idx),
                Task::LargeBoundary(idx) => task_large_boundary(&mut sh, idx),
                Task::LargeRandom(idx, ch) => task_large_random(&mut sh, idx, ch, seed),
            }
            sh.flush();
        }
    });
    report.merge(rep);

    report.count("moduli", TABLE.len() as u64);
    report.count("moduli_small", small.len() as u64);
    report.count("moduli_large", large.len() as u64);
    report.extra("exhaustive", "all operand pairs for every M in 2..=48");
    report.extra(
        "small_scope",
        "every M in 2..=48: all (x,y) in [0,M)^2 for + - * / (coprime y) and the assigning forms; neg and inv of every residue; \
new/read/display/debug/write of every i64 in -3M..=3M and of the boundary list; pow of every base with exponents 0..=2M and the \
boundary exponents; eq of a in -3M..=3M against b in -M..=M and of the boundary list squared (seed independent)",
    );
    report.extra("rule", RULE);
    report.extra(
        "nontrivial_note",
        format!("at most {} non-trivial hashes are stored per shard (memory bound); counter nontrivial_total counts all of them", see_cap),
    );
    report.extra("large_moduli", Json::from(large.iter().map(|&i| TABLE[i].0).collect::<Vec<u32>>()));
    report.extra("random_chunks_per_large_modulus", chunks_per_modulus);
    report.extra("random_rounds_per_chunk", ROUNDS_PER_CHUNK);
    report.extra("profile", if cfg!(debug_assertions) { "dev (overflow checks, debug assertions)" } else { "release" });
    report.extra("division_rule", "division and inverse are executed and judged only for divisors coprime to M (own gcd); the others are counted in noncoprime_skipped");
    eng.finish(report);
}
