#!/usr/bin/env python3
"""Offline checker for the f80 event log written by harness/f80mon (property C18).

Every event is replayed with exact integer/rational arithmetic: operands are decoded from their 80-bit patterns,
the exact result is rounded to nearest-even with a 64-bit significand and the x87 exponent range (gradual
underflow, overflow to infinity), IEEE special cases are applied, and the outcome is compared with what the
library produced. Relations are evaluated on the exact values: NaN unordered, -0 == +0.

Zero results of + - * / and of negation must carry the IEEE 754 sign (x - x = +0 under round-to-nearest, the
sign of a product / quotient is the xor of the operand signs, negation flips the sign of a zero too, an underflow
to zero keeps the sign of the exact result): "correctly rounded" in the IEEE sense includes it, and 1/(-(+0))
shows the difference as -inf versus +inf.
Deliberately NOT judged (the property speaks about values there): the sign of a zero returned by abs / min / max,
which NaN encoding is returned, and which operand min/max return when one of them is NaN (only "one of the
operands, or NaN").

usage: f80_oracle.py <events> --shard i/n --out result.json
"""
import json
import sys

QMIN80 = -16445  # exponent of the least significant bit of an 80-bit subnormal
EMIN80 = -16382


class V:
    """decoded x87 value: kind in {'nan','inf','zero','fin'}; finite value = (-1)^s * m * 2^e"""
    __slots__ = ("kind", "s", "m", "e", "cls")

    def __init__(self, kind, s, m=0, e=0, cls=""):
        self.kind, self.s, self.m, self.e, self.cls = kind, s, m, e, cls or kind


def dec80(h):
    x = int(h, 16)
    s = x >> 79
    exp = (x >> 64) & 0x7FFF
    sig = x & ((1 << 64) - 1)
    if exp == 0x7FFF:
        if sig == 1 << 63:
            return V("inf", s)
        return V("nan", s)
    if sig == 0:
        return V("zero", s)
    if exp == 0:
        return V("fin", s, sig, QMIN80, "subnormal")
    if not (sig >> 63):
        # unnormal: never produced by lawful operations
        return V("nan", s, cls="unnormal")
    return V("fin", s, sig, exp - 16383 - 63, "normal")


def dec64(h):
    x = int(h, 16)
    s = x >> 63
    exp = (x >> 52) & 0x7FF
    frac = x & ((1 << 52) - 1)
    if exp == 0x7FF:
        return V("inf", s) if frac == 0 else V("nan", s)
    if exp == 0:
        if frac == 0:
            return V("zero", s)
        return V("fin", s, frac, -1074, "subnormal")
    return V("fin", s, frac | (1 << 52), exp - 1075, "normal")


def round_to(num, den, e, prec, emin, emax):
    """nearest-even rounding of num/den * 2^e (num, den > 0) to `prec` significand bits.
    returns ('zero',) | ('inf',) | ('fin', n, q) with value n * 2^q, n < 2^prec"""
    k = num.bit_length() - den.bit_length()
    # floor(log2(num/den)) is k or k-1
    if k >= 0:
        big = num >= (den << k)
    else:
        big = (num << -k) >= den
    E = (k if big else k - 1) + e
    q = max(E, emin) - (prec - 1)
    sh = e - q
    if sh >= 0:
        N, D = num << sh, den
    else:
        N, D = num, den << -sh
    n, r = divmod(N, D)
    t = 2 * r
    if t > D or (t == D and (n & 1)):
        n += 1
    if n == 1 << prec:
        n >>= 1
        q += 1
    if n == 0:
        return ("zero",)
    if n >> (prec - 1):
        if q + prec - 1 > emax:
            return ("inf",)
    return ("fin", n, q)


def enc80(s, r):
    if r[0] == "zero":
        return ("zero", s, 0)
    if r[0] == "inf":
        return ("inf", s, 0)
    _, n, q = r
    if n >> 63:
        exp = q + 63 + 16383
        return ("fin", s, (exp << 64) | n)
    return ("fin", s, n)  # subnormal, exponent field 0


def want80_bits(kind_s_bits):
    kind, s, bits = kind_s_bits
    if kind == "zero":
        return s << 79
    if kind == "inf":
        return (s << 79) | (0x7FFF << 64) | (1 << 63)
    return (s << 79) | bits


def arith(op, a, b):
    """expected result of a op b as ('nan',) | ('zero', s?) | ('inf', s) | ('val', s, num, den, e)"""
    if a.kind == "nan" or b.kind == "nan":
        return ("nan",)
    if op == "sub":
        b = V(b.kind, b.s ^ 1, b.m, b.e, b.cls)
        op = "add"
    if op == "add":
        if a.kind == "inf" or b.kind == "inf":
            if a.kind == "inf" and b.kind == "inf":
                return ("inf", a.s) if a.s == b.s else ("nan",)
            return ("inf", a.s if a.kind == "inf" else b.s)
        if a.kind == "zero" and b.kind == "zero":
            return ("zero", a.s if a.s == b.s else 0)
        if a.kind == "zero":
            return ("val", b.s, b.m, 1, b.e)
        if b.kind == "zero":
            return ("val", a.s, a.m, 1, a.e)
        e = min(a.e, b.e)
        x = (a.m << (a.e - e)) * (-1 if a.s else 1) + (b.m << (b.e - e)) * (-1 if b.s else 1)
        if x == 0:
            return ("zero", 0)
        return ("val", 1 if x < 0 else 0, abs(x), 1, e)
    s = a.s ^ b.s
    if op == "mul":
        if a.kind == "inf" or b.kind == "inf":
            if a.kind == "zero" or b.kind == "zero":
                return ("nan",)
            return ("inf", s)
        if a.kind == "zero" or b.kind == "zero":
            return ("zero", s)
        return ("val", s, a.m * b.m, 1, a.e + b.e)
    if op == "div":
        if a.kind == "inf":
            return ("nan",) if b.kind == "inf" else ("inf", s)
        if b.kind == "inf":
            return ("zero", s)
        if b.kind == "zero":
            return ("nan",) if a.kind == "zero" else ("inf", s)
        if a.kind == "zero":
            return ("zero", s)
        return ("val", s, a.m, b.m, a.e - b.e)
    raise ValueError(op)


def cmp_exact(a, b):
    """-1, 0, 1 for non-NaN a, b"""
    def key(v):
        if v.kind == "inf":
            return None
        return v
    if a.kind == "inf" or b.kind == "inf":
        av = (1 if a.s == 0 else -1) if a.kind == "inf" else 0
        bv = (1 if b.s == 0 else -1) if b.kind == "inf" else 0
        if a.kind == "inf" and b.kind == "inf":
            return (av > bv) - (av < bv)
        if a.kind == "inf":
            return av
        return -bv
    if a.kind == "zero" and b.kind == "zero":
        return 0
    if a.kind == "zero":
        return 1 if b.s else -1
    if b.kind == "zero":
        return -1 if a.s else 1
    if a.s != b.s:
        return -1 if a.s else 1
    e = min(a.e, b.e)
    x, y = a.m << (a.e - e), b.m << (b.e - e)
    c = (x > y) - (x < y)
    return -c if a.s else c


def same_value(got, want_kind_s_bits, result):
    """got: decoded V of the library's result; result: arith() outcome after rounding -> (kind, s, bits)"""
    kind, s, bits = want_kind_s_bits
    if kind == "zero":
        return got.kind == "zero", got.kind == "zero" and got.s != s
    if kind == "inf":
        return got.kind == "inf" and got.s == s, False
    return False, False


def main():
    path = sys.argv[1]
    shard_i, shard_n = 0, 1
    out = None
    args = sys.argv[2:]
    i = 0
    while i < len(args):
        if args[i] == "--shard":
            shard_i, shard_n = map(int, args[i + 1].split("/"))
            i += 2
        elif args[i] == "--out":
            out = args[i + 1]
            i += 2
        else:
            i += 1
    counters = {}
    classes = set()
    viol = {}
    total_viol = 0
    zero_sign_diffs = 0
    samples = []

    def count(k, n=1):
        counters[k] = counters.get(k, 0) + n

    def violation(sig, event, **detail):
        nonlocal total_viol
        total_viol += 1
        if sig not in viol and len(viol) < 40:
            d = dict(detail)
            d["event"] = event
            viol[sig] = d

    def opclass(v):
        return v.cls

    with open(path) as f:
        for idx, line in enumerate(f):
            if idx % shard_n != shard_i:
                continue
            p = line.split()
            if not p:
                continue
            op = p[0]
            count("events_checked")
            count("op_" + op)
            if op == "cvt":
                a = dec64(p[1])
                g = dec80(p[2])
                classes.add("cvt:" + a.cls)
                if a.kind == "nan":
                    ok = g.kind == "nan"
                elif a.kind == "inf":
                    ok = g.kind == "inf" and g.s == a.s
                elif a.kind == "zero":
                    ok = g.kind == "zero" and g.s == a.s
                else:
                    r = round_to(a.m, 1, a.e, 64, EMIN80, 16383)
                    ok = int(p[2], 16) == want80_bits(enc80(a.s, r))
                if not ok:
                    violation("cvt:f64_to_f80_not_exact", line.strip(), what="f64 -> f80 is not the identity on the value")
            elif op == "back":
                a = dec80(p[1])
                g = dec64(p[2])
                classes.add("back:" + a.cls)
                if a.kind == "nan":
                    ok = g.kind == "nan"
                elif a.kind == "inf":
                    ok = g.kind == "inf" and g.s == a.s
                elif a.kind == "zero":
                    ok = g.kind == "zero"
                else:
                    r = round_to(a.m, 1, a.e, 53, -1022, 1023)
                    if r[0] == "zero":
                        ok = g.kind == "zero"
                    elif r[0] == "inf":
                        ok = g.kind == "inf" and g.s == a.s
                    else:
                        ok = g.kind == "fin" and g.s == a.s and cmp_exact(V("fin", 0, g.m, g.e), V("fin", 0, r[1], r[2])) == 0
                    if r[0] == "fin" and not (r[1] >> 52):
                        count("back_results_subnormal_f64")
                    if r[0] == "inf":
                        count("back_results_overflow_f64")
                if not ok:
                    violation("back:f80_to_f64_not_correctly_rounded", line.strip(), what="f80 -> f64 is not the correctly rounded value")
            elif op in ("add", "sub", "mul", "div"):
                a, b, g = dec80(p[1]), dec80(p[2]), dec80(p[3])
                classes.add("%s:%s:%s" % (op, a.cls, b.cls))
                w = arith(op, a, b)
                if w[0] == "nan":
                    ok = g.kind == "nan"
                    count("results_nan")
                elif w[0] == "zero":
                    ok = g.kind == "zero"
                    count("results_exact_zero")
                    if ok and g.s != w[1]:
                        zero_sign_diffs += 1
                        violation("arith:%s:zero_sign" % op, line.strip(), what="a zero result carries the wrong sign (IEEE 754 round-to-nearest rules)",
                                  got_sign=g.s, want_sign=w[1])
                elif w[0] == "inf":
                    ok = g.kind == "inf" and g.s == w[1]
                    count("results_inf")
                else:
                    _, s, num, den, e = w
                    r = round_to(num, den, e, 64, EMIN80, 16383)
                    if r[0] == "zero":
                        ok = g.kind == "zero"
                        count("results_underflow_to_zero")
                        if ok and g.s != s:
                            zero_sign_diffs += 1
                            violation("arith:%s:zero_sign" % op, line.strip(), what="an underflow to zero lost the sign of the exact result", got_sign=g.s, want_sign=s)
                    elif r[0] == "inf":
                        ok = g.kind == "inf" and g.s == s
                        count("results_overflow")
                    else:
                        ok = int(p[3], 16) == want80_bits(enc80(s, r))
                        if not (r[1] >> 63):
                            count("results_subnormal")
                        # was rounding needed at all? (inexact result)
                        if op == "div" or True:
                            pass
                    if len(samples) < 3 and r[0] == "fin" and a.cls == "normal":
                        samples.append(dict(event=line.strip(), expected_result_bits="%020x" % want80_bits(enc80(s, r))))
                if not ok:
                    violation("arith:%s" % op, line.strip(), what="the result is not the exact real result rounded to nearest-even with a 64-bit significand",
                              operand_classes=[a.cls, b.cls])
            elif op in ("neg", "abs"):
                a, g = dec80(p[1]), dec80(p[2])
                classes.add("%s:%s" % (op, a.cls))
                if a.kind == "nan":
                    ok = g.kind == "nan"
                elif a.kind == "zero":
                    ok = g.kind == "zero"
                    if ok and op == "neg":
                        count("negations_of_zero")
                        if g.s != (a.s ^ 1):
                            zero_sign_diffs += 1
                            violation("neg:zero_sign", line.strip(), what="negation of a zero does not flip its sign", got_sign=g.s, want_sign=a.s ^ 1)
                else:
                    ws = (a.s ^ 1) if op == "neg" else 0
                    ok = g.kind == a.kind and g.s == ws and (a.kind == "inf" or (g.m == a.m and g.e == a.e))
                if not ok:
                    violation(op, line.strip(), what="%s does not return the exact value" % op)
            elif op in ("min", "max"):
                a, b, g = dec80(p[1]), dec80(p[2]), dec80(p[3])
                classes.add("%s:%s:%s" % (op, a.cls, b.cls))
                if a.kind == "nan" or b.kind == "nan":
                    # the property does not fix minNum vs. propagate: one of the operands, or NaN
                    ok = g.kind == "nan" or p[3] == p[1] or p[3] == p[2]
                    count("minmax_with_nan")
                else:
                    c = cmp_exact(a, b)
                    want = a if ((c <= 0) == (op == "min")) else b
                    if c == 0:
                        ok = cmp_exact(g, a) == 0 if g.kind != "nan" else False
                    else:
                        ok = g.kind != "nan" and cmp_exact(g, want) == 0 and (want.kind != "fin" or (g.kind == "fin"))
                if not ok:
                    violation(op, line.strip(), what="%s is not numerically the %s of its operands" % (op, op))
            elif op == "rel":
                a, b = dec80(p[1]), dec80(p[2])
                bits = p[3]
                lt, le, gt, ge, eq, ne = [c == "1" for c in bits[:6]]
                pc = bits[6]
                classes.add("rel:%s:%s" % (a.cls, b.cls))
                if a.kind == "nan" or b.kind == "nan":
                    count("relations_with_nan")
                    exp = (False, False, False, False, False, True, "N")
                    tag = "nan"
                else:
                    c = cmp_exact(a, b)
                    exp = (c < 0, c <= 0, c > 0, c >= 0, c == 0, c != 0, "L" if c < 0 else ("E" if c == 0 else "G"))
                    tag = "signed_zeros" if (a.kind == "zero" and b.kind == "zero" and a.s != b.s) else "ordered"
                    if tag == "signed_zeros":
                        count("relations_signed_zeros")
                names = ["lt", "le", "gt", "ge", "eq", "ne"]
                got = [lt, le, gt, ge, eq, ne]
                for n, gv, ev in zip(names, got, exp[:6]):
                    if gv != ev:
                        violation("rel:%s:%s" % (n, tag), line.strip(), what="relation %s disagrees with the IEEE ordering of the values" % n, got=gv, want=ev)
                if pc != exp[6]:
                    violation("rel:partial_cmp:%s" % tag, line.strip(), what="partial_cmp disagrees with the IEEE ordering of the values", got=pc, want=exp[6])
                if eq != (pc == "E"):
                    violation("rel:eq_inconsistent_with_partial_cmp:%s" % tag, line.strip(), what="== is not consistent with partial_cmp", eq=eq, partial_cmp=pc)
            else:
                count("unknown_events")
    res = dict(counters=counters, operand_classes=sorted(classes), violations=[dict(signature=k, detail=v) for k, v in viol.items()],
               violations_total=total_viol, zero_sign_differences=zero_sign_diffs, samples=samples)
    if out:
        with open(out, "w") as f:
            json.dump(res, f)
    else:
        print(json.dumps(res, indent=1)[:5000])
    return 0


if __name__ == "__main__":
    sys.exit(main())
